"""Driver for C13's real-process fault runs: runs the real `run_realign` (real multiprocessing, the OS's own schedule)
with one worker made to die at a chosen point of its batch, and exits 0 only if run_realign returned normally.

usage: python -m mc.realfault_driver <dir> <cores> <batch> <worker> <k> <kind> <graph file>
kind: kill (SIGKILL) | lockkill / lockexit (SIGKILL / os._exit(3) while holding the result queue's write lock) | term (SIGTERM) | exc (exception inside the worker body) | exit3 (os._exit(3))"""

import os
import sys
import time
import signal

from mc import framework as fw


def main(argv):
    d, cores, batch, wsel, k, kind, graph = argv
    cores, batch, wsel, k = int(cores), int(batch), int(wsel), int(k)
    fw.bind_repo()
    os.environ["GAFTOOLS_VERIF_BATCH"] = str(batch)
    import gaftools.cli.realign as R

    real = R.wfa_alignment

    def faulty(seq_batch, qu):
        first = seq_batch[0][3] if seq_batch else 0  # the input-order counter of the batch's first record
        mine = first // batch == wsel

        class Q:
            def __init__(self):
                self.n = 0

            def put(self, item, *a, **kw):
                if mine and self.n == k:
                    if kind in ("lockkill", "lockexit"):
                        # death in the middle of a delivery: the feeder thread holds the queue's cross-process write lock
                        qu._wlock.acquire()
                        if kind == "lockexit":
                            os._exit(3)
                        os.kill(os.getpid(), signal.SIGKILL)
                        time.sleep(30)
                    elif kind == "kill":
                        os.kill(os.getpid(), signal.SIGKILL)
                        time.sleep(30)
                    elif kind == "term":
                        os.kill(os.getpid(), signal.SIGTERM)
                        time.sleep(5)  # a handler may turn this into an orderly exit; if the signal is ignored, die anyway
                        os._exit(7)
                    elif kind == "exit3":
                        os._exit(3)
                    else:
                        raise MemoryError("injected failure of the worker")
                self.n += 1
                qu.put(item, *a, **kw)
                if not mine and kind.startswith("lock"):
                    # the surviving workers are still inside their batches (a result queued behind the dead worker's lock,
                    # more work to do) when the parent notices the death
                    time.sleep(2.0)

        real(seq_batch, Q())

    R.wfa_alignment = faulty
    R.run_realign(gaf=os.path.join(d, "a.gaf"), graph=graph, fasta=os.path.join(d, "r.fa"), output=os.path.join(d, "out.gaf"), cores=cores)
    return 0


if __name__ == "__main__":
    sys.exit(main(sys.argv[1:]))
