"""C09 - sort emits every record once, unchanged, plus correct bo/sn/iv tags."""

import os
import itertools

from mc import framework as fw
from mc import rgfa
from mc import sortcommon as sc
from mc import viewidx as vi

ID = "C09"
LEVEL = "exploration"
TECHNIQUE = "bounded-exhaustive enumeration of (tagged graph, GAF file, input compression layout, output mode) through run_sort; permutation + per-record tag oracle"
RULE = (
    "graphs: 1-3 chromosome bubble chains with an inversion block, hand-tagged incl. one BO=NO=-1 node; records: every real walk of <=L steps "
    "(so every reversed walk too) with raw lines that carry awkward but valid content (read name with a space, ds:Z, Z value with ':' and "
    "interior space, negative integers) + records touching no reference node; files: the full record list, every sequence of <=3 over a "
    "6-record sub-alphabet, a >64 KiB padded file; input {plain, every placement of <=2 BGZF cuts around line boundaries for a 5-record file, "
    "pysam-written}; output {plain, --bgzip}. evaluations = output records judged; non-trivial = records whose path has a bubble node, a "
    "reversed step or no reference node."
)
ASSUMPTIONS = [
    "a raw input line does not end in whitespace (sort strips the line end before appending its fields)",
    "iv = 1 iff tagged scaffold nodes (NO = 0) occur in both orientations; sn = contig of the first rank-0 node, 'unknown' if none",
]
LEVEL_TEXT = (
    "Every output record of every file inside the bounds is matched against the input multiset byte for byte (minus the three appended "
    "fields) and the three tag values are recomputed by an independent model; input block layouts and compressed output, which the one "
    "8-record test never produces, are enumerated."
)
LEVEL_NOTE = "Trusts mc/sortcommon.py:sort_key for bo/sn/iv and Python's gzip module for reading BGZF output."
DESIGN_REF = "DESIGN.md §4 C09"
EXHAUSTIVE = True


def bounds(tier):
    return {"max_steps": 3 if tier == "quick" else 5, "bgzf_max_cuts": 2 if tier == "quick" else 3, "small_file_records": 5}


AWKWARD = ["ds:Z:*2+a-t", "zz:Z:a b:c", "xi:i:-5", "fl:f:-0.5", "bo:i:77", "sn:Z:earlier", "iv:i:1"]  # incl. fields named like sort's own


def build(nchrom, retagged=False):
    g0, chains = sc.multi_chrom_graph(nchrom)
    if retagged:
        # same node ids, different BO/NO (chromosomes numbered in reverse order, from 50): what an earlier sort call
        # in the same process may have seen
        g = sc.tag_by_model(g0, chains[::-1], with_untagged=True, bo_start=50)
    else:
        g = sc.tag_by_model(g0, chains, with_untagged=True)
    return g, chains


def records(g, chains, maxlen):
    recs = []
    for ch in chains:
        recs += sc.chain_walk_records(g, list(ch.g.segs), maxlen, start_ordinal=len(recs), extra_tags=AWKWARD if len(recs) % 2 == 0 else ())
    # records touching no reference node
    hap = [s.id for s in g.segs.values() if int(s.tag("SR")) > 0 and s.id != "u1"][:2]
    for h in hap:
        recs.append(sc.rec_on(g, f"w{len(recs)}", f">{h}", 0, g.segs[h].LN))
    recs.append(sc.rec_on(g, f"w{len(recs)}", ">u1", 1, 4))
    recs.append(sc.rec_on(g, f"w{len(recs)}", ">ebv1", 2, 9))  # reference node of a contig that was not ordered: sn is its contig
    # a read name with a space (GraphAligner style)
    r = recs[1]
    recs[1] = rgfa.Rec(r.qname + " extra words", *r.cols()[1:], opt=r.opt)
    # split / supplementary alignments: several records share a query name (every fifth record takes the name of its predecessor,
    # whose walk usually differs in orientation), so anything kept per read name instead of per record shows
    for k in range(4, len(recs), 5):
        recs[k] = rgfa.Rec(recs[k - 1].qname, *recs[k].cols()[1:], opt=recs[k].opt)
    return recs


def plan(tier, seed):
    specs = []
    for nchrom in (1, 2, 3):
        specs.append({"nchrom": nchrom, "part": "full"})
        specs.append({"nchrom": nchrom, "part": "small-seqs"})
    for k in range(8):
        specs.append({"nchrom": 2, "part": "bgzf", "k": k, "of": 8})
    specs.append({"nchrom": 2, "part": "big"})
    return specs


HIST = []  # earlier sort calls of this process: a failure may depend on them


def judge(res, g, recs, in_variant, bgzip, scratch, tagname="x", record_history=True, large=False):
    gfa_path = os.path.join(scratch, "g.gfa")
    fw.write_text(gfa_path, g.text())
    text = "".join(r.line() + "\n" for r in recs)
    gaf = os.path.join(scratch, f"{tagname}.gaf" + ("" if in_variant[0].startswith("plain") else ".gz"))
    vi.write_gaf(gaf, text, in_variant)
    outp = os.path.join(scratch, f"{tagname}.sorted.gaf" + (".gz" if bgzip else ""))
    out = sc.run_sort(scratch, gfa_path, gaf, outgaf=outp, outind=os.path.join(scratch, f"{tagname}.gsi"), bgzip=bgzip)
    res.count("sort_runs")
    case = {"gfa": g.text(), "records": [r.line() for r in recs], "in_variant": list(in_variant), "bgzip": bgzip}
    if large:
        case = {"large": len(recs), "nchrom": 2, "gfa": g.text(), "in_variant": list(in_variant), "bgzip": bgzip}
    if record_history:
        case["preceded_by"] = [h for h in HIST[-1:] if h["gfa"] != case["gfa"]]
        if not HIST or HIST[-1]["gfa"] != case["gfa"]:
            HIST.append({"gfa": case["gfa"], "records": case["records"][:30], "in_variant": ["plain"], "bgzip": False})
            if len(HIST) > 3:
                del HIST[0]
    lines = []
    if os.path.exists(outp):
        try:
            lines = sc.read_lines(outp, gz=bgzip)
        except Exception as e:
            res.fail("C09/unreadable-output", f"cannot read the output file: {type(e).__name__}: {e}", case)
            return
    want = {}
    for r in recs:
        want[r.line()] = want.get(r.line(), 0) + 1
    if out.kind != "ok":
        # a failure after the records were written completely is C10's business (index); otherwise it is ours
        bodies = [sc.split_appended(l)[0] for l in lines]
        got = {}
        for b in bodies:
            got[b] = got.get(b, 0) + 1
        if got != want:
            res.fail(f"C09/sort-failed:{out.sig()}", f"sort failed and the output is incomplete ({len(lines)} of {len(recs)} records): {out.brief()}", case)
            return
        res.count("runs_failing_after_complete_output")
    byline = {}
    for r in recs:
        byline.setdefault(r.line(), r)
    got = {}
    for l in lines:
        res.evaluations += 1
        body, tags = sc.split_appended(l)
        got[body] = got.get(body, 0) + 1
        r = byline.get(body)
        if r is None:
            res.fail("C09/record-changed", f"output line does not start with any input line: {l!r}", case)
            continue
        steps = rgfa.parse_steps(r.path)
        if any(o == "<" for o, n in steps) or any(int(g.segs[n].tag("NO")) != 0 for o, n in steps):
            res.nt(fw.h64([body, in_variant[0], bgzip]))
        exp = sc.expected_tags(g, r)
        if set(tags) != exp or len(tags) != 3:
            wrong = sorted(set(tags) ^ exp)
            kind = sorted({t[:2] for t in wrong})
            c2 = dict(case)  # the whole file: a record's tags may depend on the other records (state shared inside one sort run)
            res.fail(f"C09/tags:{'+'.join(kind)}", f"{r.path} [{r.ps},{r.pe}) of {r.plen}: appended {tags}, expected {sorted(exp)}", c2)
    if got != want:
        missing = [k.split("\t")[0] for k in want if got.get(k, 0) < want[k]]
        dup = [k.split("\t")[0] for k in got if got[k] > want.get(k, 0)]
        res.fail("C09/not-a-permutation", f"records missing {missing[:5]}, duplicated or invented {dup[:5]} ({len(lines)} lines out, {len(recs)} in; input {in_variant[0]}, bgzip={bgzip})", case)


def run_shard(spec, tier, scratch):
    res = fw.ShardResult()
    b = bounds(tier)
    g, chains = build(spec["nchrom"])
    recs = records(g, chains, b["max_steps"])
    res.count("records_in_alphabet", len(recs))
    part = spec["part"]
    if part == "full":
        g_other, _ = build(spec["nchrom"], retagged=True)
        judge(res, g_other, recs, ("plain",), False, scratch)  # also leaves a different graph in this process's history
        for inv in (("plain",), ("pysam",), ("bgzf", [len(recs[0].line()) + 1, len(recs[0].line()) + 20], [], True), ("plain-nonl",), ("pysam-nonl",)):
            for bgzip in (False, True):
                judge(res, g, recs, inv, bgzip, scratch)
                judge(res, g, recs[::-1], inv, bgzip, scratch)
        res.sample({"chromosomes": spec["nchrom"], "example_records": [recs[0].line(), recs[1].line(), recs[-1].line()], "n_records": len(recs)})
    elif part == "small-seqs":
        step = max(1, len(recs) // 6)
        alpha = recs[::step][:5] + [recs[-1]]
        for k in (1, 2, 3):
            for seq in itertools.product(alpha, repeat=k):
                judge(res, g, list(seq), ("plain",), False, scratch)
    elif part == "bgzf":
        step = max(1, len(recs) // b["small_file_records"])
        sm = recs[::step][: b["small_file_records"]]
        text = "".join(r.line() + "\n" for r in sm)
        for i, variant in enumerate(vi.bgzf_variants(text, b["bgzf_max_cuts"])):
            if i % spec["of"] != spec["k"]:
                continue
            judge(res, g, sm, variant, bool(i % 2), scratch)
            res.count("bgzf_layouts")
    elif part == "big":
        # many records (beyond 2^15) ...
        many = []
        for i in range(40_003):
            r = recs[(i * 13) % len(recs)]
            many.append(rgfa.Rec(f"m{i}", *r.cols()[1:], opt=r.opt))
        judge(res, g, many, ("plain",), False, scratch, record_history=False, large=True)
        res.count("large_file_records", len(many))
        # ... and few but long records (beyond one 64 KiB block)
        big = vi.pad_records(recs[:60], 200_000)
        for inv in (("plain",), ("bgzip64k",), ("pysam",)):
            for bgzip in (False, True):
                judge(res, g, big, inv, bgzip, scratch)
                res.count("files_over_64k")
    return res


def replay(case, scratch):
    res = fw.ShardResult()
    g = rgfa.Graph.parse(case["gfa"])
    if "large" in case:
        g2, chains = build(case["nchrom"])
        base = records(g2, chains, 3)
        many = []
        for i in range(case["large"]):
            r = base[(i * 13) % len(base)]
            many.append(rgfa.Rec(f"m{i}", *r.cols()[1:], opt=r.opt))
        judge(res, g, many, ("plain",), False, scratch, record_history=False, large=True)
        return res.failures
    recs = [rgfa.Rec.parse(l) for l in case["records"]]
    v = case["in_variant"]
    variant = tuple(v) if v[0] != "bgzf" else ("bgzf", v[1], v[2], v[3])
    for prev in case.get("preceded_by") or []:
        judge(fw.ShardResult(), rgfa.Graph.parse(prev["gfa"]), [rgfa.Rec.parse(l) for l in prev["records"]], ("plain",), False, scratch, record_history=False)
    judge(res, g, recs, variant, case["bgzip"], scratch, record_history=False)
    return res.failures
