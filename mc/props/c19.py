"""C19 - stat reports numbers that match their definitions."""

import os
import re
import itertools

from mc import framework as fw
from mc import rgfa

ID = "C19"
LEVEL = "exploration"
TECHNIQUE = "bounded-exhaustive enumeration of every record sequence (all multisets in all orders) over a 44-record alphabet through run_stat against the definitions computed independently"
RULE = (
    "record alphabet: read in {r1, r2} x class in {tp:A:P/mapq 60, tp:A:P/mapq 0, tp:A:S/60, tp:A:I/60, no tp/60} x quality in {(4 matches of 8, "
    "span 4/16, cg 2=2X2=2D), (8 of 8, span 8/16, cg 8=), (8 of 8, span 16/16, cg 4=4=)} + three records with tp:A after the cg field + per read one record with another query length and one without a matching base + one primary record without a CIGAR field = 44 records with dyadic ratios (exact float sums); every sequence of <=N records "
    "(N=3 quick, 4 thorough), with and without --cigar. evaluations = stat runs; non-trivial = files with >=2 records that mix primary and "
    "secondary records or hold several records of one read."
)
ASSUMPTIONS = [
    "'Average mapping quality' and the '>50bps' sub-counts are not part of the statement and are not judged",
    "for a file without any primary record only the counts are judged (averages over zero reads are unconstrained)",
    "secondary = tp present and not P, or mapping quality 0 (the statement's definition)",
]
LEVEL_TEXT = (
    "Every multiset of records up to the bound in every order is summarised by the real command and compared with the definitions "
    "recomputed from the file; the primary/secondary split, per-read maxima over several records, CIGAR statistics and order "
    "independence are never exercised by the three all-primary two-record tests."
)
LEVEL_NOTE = "Trusts the 30-line definition model in this module; the report is parsed by its labels."
DESIGN_REF = "DESIGN.md §4 C19"
EXHAUSTIVE = True
NSHARD = {"quick": 16, "thorough": 64}


def bounds(tier):
    return {"max_records": 3 if tier == "quick" else 4, "alphabet": 44}


CLASSES = [("P", 60), ("P", 0), ("S", 60), ("I", 60), (None, 60), ("P", 255)]  # 255 = "mapping quality not available": still > 0
QUALS = [(4, 8, 0, 4, "2=2X2=2D"), (8, 8, 4, 12, "8="), (8, 8, 0, 16, "4=4=")]  # the last: columns say perfect, the CIGAR has two runs


# nine further optional fields in front of cg / tp in the 'type after the CIGAR' records: a record may carry any number of fields
FILLER = ["AS:i:8", "dv:f:0.0", "id:f:1.0", "s1:i:8", "s2:i:0", "rl:i:0", "zd:i:0", "cm:i:2", "de:f:0.0"]


def alphabet():
    out = []
    # two read names with the same CRC-32 (a table keyed by a 32-bit checksum of the name would merge them); a third
    # read further down is called '#r2' (not a comment: GAF has no comment lines)
    for read in ("plumless", "buckeroo"):
        for tp, mapq in CLASSES:
            for matches, block, qs, qe, cg in QUALS:
                opt = ([f"tp:A:{tp}"] if tp else []) + ["NM:i:0", f"cg:Z:{cg}"]
                out.append(rgfa.Rec(read, 16, qs, qe, "+", ">s1", 20, 0, 8, matches, block, mapq, opt))
    # the alignment type after the CIGAR (the order of optional fields is free)
    for tp in ("S", "I", "P"):
        matches, block, qs, qe, cg = QUALS[1]
        out.append(rgfa.Rec("plumless", 16, qs, qe, "+", ">s1", 20, 0, 8, matches, block, 60, ["NM:i:0"] + FILLER + [f"cg:Z:{cg}", f"tp:A:{tp}"]))
    for read in ("plumless", "buckeroo"):
        # a primary record of the same read name with another query length (names are cut at the first blank, so parts of one
        # read share a name): span 8 of 32; and a primary record without a single matching base
        out.append(rgfa.Rec(read, 32, 0, 8, "+", ">s1", 20, 0, 8, 8, 8, 60, ["tp:A:P", "NM:i:0", "cg:Z:8="]))
        out.append(rgfa.Rec(read, 16, 0, 8, "+", ">s1", 20, 0, 8, 0, 8, 60, ["tp:A:P", "NM:i:8", "cg:Z:8X"]))
    # a primary record without any CIGAR field
    out.append(rgfa.Rec("#r2", 16, 0, 8, "+", ">s1", 20, 0, 8, 8, 8, 60, ["tp:A:P", "NM:i:0"]))
    return out


def expected(recs, cigar):
    prim = []
    for r in recs:
        tp = r.opt_get("tp")
        sec = (tp is not None and tp != "P") or r.mapq == 0
        if not sec:
            prim.append(r)
    reads = {}
    for r in prim:
        ident = r.matches / r.block
        ratio = (r.qe - r.qs) / r.qlen
        a, b = reads.get(r.qname, (0.0, 0.0))
        reads[r.qname] = (max(a, ident), max(b, ratio))
    e = {
        "total": len(recs),
        "primary": len(prim),
        "secondary": len(recs) - len(prim),
        "reads": len(reads),
        "bases": sum(r.matches for r in prim),
    }
    if reads:
        e["identity"] = sum(v[0] for v in reads.values()) / len(reads)
        e["ratio"] = sum(v[1] for v in reads.values()) / len(reads)
    if cigar:
        cnt = {"D": 0, "I": 0, "X": 0, "=": 0}
        perfect = 0
        for r in prim:
            runs = rgfa.cigar_runs(r.opt_get("cg") or "")
            for n, op in runs:
                if op in cnt:
                    cnt[op] += 1
            if len(runs) == 1 and runs[0][1] == "=":
                perfect += 1
        e["cigar"] = cnt
        e["perfect"] = perfect
    return e


LABELS = {
    "total": r"Total alignments:\s*(\S+)",
    "primary": r"Primary:\s*(\S+)",
    "secondary": r"Secondary:\s*(\S+)",
    "reads": r"Reads with at least one alignment:\s*(\S+)",
    "bases": r"Total aligned bases:\s*(\S+)",
    "identity": r"Average highest sequence identity:\s*(\S+)",
    "ratio": r"Average highest map ratio:\s*(\S+)",
    "del": r"Total deletion regions:\s*(\d+)",
    "ins": r"Total insertion regions:\s*(\d+)",
    "sub": r"Total substitution regions:\s*(\d+)",
    "match": r"Total match regions:\s*(\d+)",
    "perfect": r"Total perfect alignments \(exact match\):\s*(\d+)",
}


def parse_report(text):
    out = {}
    for k, pat in LABELS.items():
        m = re.search(pat, text)
        if m:
            out[k] = m.group(1)
    return out


def judge(res, scratch, recs, cigar, reports=None, names=None):
    from gaftools.cli import stat

    gaf = os.path.join(scratch, "in.gaf")
    text = "".join(r.line() + "\n" for r in recs)
    if len(text) % 7 == 3:
        text = text[:-1]  # some files end without a newline (which ones is a deterministic function of the content)
    fw.write_text(gaf, text)
    outp = os.path.join(scratch, "report.txt")
    if os.path.exists(outp):
        os.remove(outp)
    res.next_call()
    out = fw.guarded(stat.run_stat, gaf_path=gaf, cigar_stat=cigar, output=outp, _capture_stdout=True)
    res.evaluations += 1
    e = expected(recs, cigar)
    case = {"records": [r.line() for r in recs], "cigar": cigar}
    if len(recs) > 1000:
        case = {"large": len(recs), "reversed": names == "large file reversed", "cigar": cigar}
    mixed = 0 < e["primary"] < e["total"]
    if len(recs) >= 2 and (mixed or e["reads"] < e["primary"]):
        res.nt(fw.h64([case.get("records") or case, cigar]))
    if out.kind != "ok":
        kind = "all-secondary" if e["primary"] == 0 else "mixed"
        res.fail(f"C19/stat-failed:{out.sig()}:{kind}", f"stat failed on {names or len(recs)} ({e['primary']} primary, {e['secondary']} secondary): {out.brief()}", case)
        return
    text = open(outp).read()
    rep = parse_report(text)
    for k in ("total", "primary", "secondary", "reads", "bases"):
        if k not in rep or not re.fullmatch(r"-?\d+", rep[k]) or int(rep[k]) != e[k]:
            res.fail(f"C19/wrong-{k}", f"records {names or ''} (expected total/primary/secondary = {e['total']}/{e['primary']}/{e['secondary']}): report says {k} = {rep.get(k)}, definition gives {e[k]}", case)
    for k in ("identity", "ratio"):
        if k in e:
            try:
                v = float(rep.get(k, "nan"))
            except ValueError:
                v = float("nan")
            if not abs(v - e[k]) < 5e-4:
                res.fail(f"C19/wrong-{k}", f"records {names or ''}: report says average highest {k} = {rep.get(k)}, definition gives {e[k]:.4f}", case)
    if cigar:
        for k, op in (("del", "D"), ("ins", "I"), ("sub", "X"), ("match", "=")):
            if k not in rep or int(rep[k]) != e["cigar"][op]:
                res.fail(f"C19/wrong-cigar-{k}", f"records {names or ''}: report counts {rep.get(k)} {k} regions, the primary records have {e['cigar'][op]} runs of {op}", case)
        if "perfect" not in rep or int(rep["perfect"]) != e["perfect"]:
            res.fail("C19/wrong-cigar-perfect", f"records {names or ''}: report counts {rep.get('perfect')} perfect alignments, definition gives {e['perfect']}", case)
    if reports is not None:
        key = (tuple(sorted(case["records"])), cigar)
        judged = re.sub(r"Average mapping quality:.*\n", "", text)
        if key in reports and reports[key][0] != judged:
            res.fail("C19/order-dependent", f"the same multiset of records gives different reports in different orders: {names} vs {reports[key][1]}",
                     {"records": case["records"], "cigar": cigar, "other_order": reports[key][2]})
        reports.setdefault(key, (judged, names, case["records"]))


def plan(tier, seed):
    n = NSHARD[tier]
    return [{"shard": i, "of": n} for i in range(n)]


def run_shard(spec, tier, scratch):
    res = fw.ShardResult().begin(spec, tier)
    A = alphabet()
    maxn = bounds(tier)["max_records"]
    reports = {}
    # shard by multiset so that all orders of one multiset are judged together (order independence)
    for k in range(1, maxn + 1):
        for ms_i, ms in enumerate(itertools.combinations_with_replacement(range(len(A)), k)):
            if (ms_i + k) % spec["of"] != spec["shard"]:
                continue
            for seq in set(itertools.permutations(ms)):
                recs = [A[i] for i in seq]
                for cigar in (False, True):
                    judge(res, scratch, recs, cigar, reports, list(seq))
            reports.clear()
    if spec["shard"] == 1 % spec["of"]:
        # one deliberately large file (beyond any plausible batching threshold), in two orders
        big = [A[(i * 11) % len(A)] for i in range(5003)]
        for cigar in (False, True):
            judge(res, scratch, big, cigar, None, "large file")
            judge(res, scratch, big[::-1], cigar, None, "large file reversed")
        res.count("large_file_records", len(big))
    if spec["shard"] == 0:
        res.sample({"alphabet_excerpt": [A[0].line(), A[3].line(), A[5].line(), A[8].line()], "a_file": [A[i].line() for i in (0, 5, 12)]})
    return res


def replay(case, scratch):
    res = fw.ShardResult()
    if "large" in case:
        A = alphabet()
        big = [A[(i * 11) % len(A)] for i in range(case["large"])]
        judge(res, scratch, big[::-1] if case.get("reversed") else big, case["cigar"], None, "large file reversed" if case.get("reversed") else "large file")
        return res.failures
    recs = [rgfa.Rec.parse(l) for l in case["records"]]
    reports = None
    if case.get("other_order"):
        reports = {}
        judge(fw.ShardResult(), scratch, [rgfa.Rec.parse(l) for l in case["other_order"]], case["cigar"], reports, "other order")
    judge(res, scratch, recs, case["cigar"], reports, "replay")
    return res.failures
