"""C12 - realign emits a valid global alignment of read slice to path slice."""

import os
import itertools

from mc import framework as fw
from mc import rgfa
from mc import gen

ID = "C12"
LEVEL = "exploration"
TECHNIQUE = "bounded-exhaustive enumeration of (graph walk, offsets, edit script, input CIGAR form) through run_realign; output CIGAR replayed against the sequences, cost compared with the input CIGAR and an independent gap-affine DP"
RULE = (
    "graph: 3 nodes (3, 4 and 2 bases) with every pair of node sides linked; targets: every walk of <=W steps x every 0<=start<end<=path "
    "length; reads: the target slice edited by every script of <=E edits (substitution at every position, insertion of 1-2 bases at every "
    "position, deletion of 1-2 bases at every position) placed inside a longer read with flanks; input CIGAR in {optimal (own DP), the same "
    "with every indel run split into 1-base runs, the worst valid alignment nD mI, none}; plus reads of exactly 60,000 bases (realigned) and "
    "60,001 bases (passed through). evaluations = records realigned and judged; non-trivial = records with >=1 edit or a reversed step."
)
ASSUMPTIONS = [
    "penalties of the aligner as used by gaftools (pywfa defaults): mismatch 4, gap opening 6, gap extension 2; a gap of length L costs 6 + 2L",
    "the cost of a CIGAR is computed per run as written (a split indel pays the opening penalty again)",
    "zero-length path slices are excluded",
]
LEVEL_TEXT = (
    "Every output CIGAR of every record inside the bounds is replayed base by base against the read slice and the spelled path slice, its "
    "match/block columns are recomputed, and its gap-affine cost is compared with the input CIGAR's and with an independent DP; reverse "
    "steps, mismatches, insertions, node-boundary offsets and the 60 kb guard are all inside the enumerated space."
)
LEVEL_NOTE = "Trusts the 30-line Gotoh DP and CIGAR replay in this module and the walk spelling of mc/rgfa.py (cross-checked by C14)."
DESIGN_REF = "DESIGN.md §4 C12"
EXHAUSTIVE = True
X, O, E = 4, 6, 2
NSHARD = {"quick": 16, "thorough": 64}


def bounds(tier):
    if tier == "quick":
        return {"max_steps": 2, "max_edits": 2, "double_edit_max_target": 5}
    return {"max_steps": 3, "max_edits": 2, "double_edit_max_target": 7}


def graph():
    g = rgfa.Graph()
    seqs = {"s1": "ACG", "s1.alt": "TTga", "s3": "CA"}  # the last two bases of s1.alt are soft-masked (lower case; reads carry the same case)  # 's1.alt' next to 's1': a name with a non-word character whose prefix is a segment too
    so = 0
    for n, q in seqs.items():
        g.add_seg(n, q, [("LN", "i", str(len(q))), ("SN", "Z", "chr1"), ("SO", "i", str(so)), ("SR", "i", "0")])
        so += len(q)
    sides = [(n, s) for n in seqs for s in (0, 1)]
    for (a, sa), (b, sb) in itertools.combinations_with_replacement(sides, 2):
        # link overlaps are not applied when gaftools spells a walk (plain concatenation); some links carry one
        g.add_link(a, "+" if sa == 1 else "-", b, "+" if sb == 0 else "-", "1M" if (a, b) == ("s1", "s1.alt") or a == b == "s3" else "0M")
    return g


# ----------------------------------------------------------------------------------------------
# reference machinery: CIGAR replay, cost, optimal gap-affine alignment


def cigar_cost(cg):
    cost = 0
    for n, op in rgfa.cigar_runs(cg):
        n = int(n)
        if op == "X":
            cost += X * n
        elif op in "ID":
            cost += O + E * n
    return cost


def replay_cigar(cg, read, ref):
    """-> (error text or None, matches, columns)"""
    i = j = 0
    matches = cols = 0
    runs = rgfa.cigar_runs(cg)
    if "".join(n + op for n, op in runs) != cg or not runs:
        return f"not a CIGAR string: {cg!r}", 0, 0
    for n, op in runs:
        n = int(n)
        cols += n
        if op == "=":
            if read[i : i + n] != ref[j : j + n] or len(read[i : i + n]) != n:
                return f"'=' run of {n} at read {i} / path {j} pairs {read[i:i+n]!r} with {ref[j:j+n]!r}", 0, 0
            matches += n
            i += n
            j += n
        elif op == "X":
            a, b = read[i : i + n], ref[j : j + n]
            if len(a) != n or len(b) != n or any(x == y for x, y in zip(a, b)):
                return f"'X' run of {n} at read {i} / path {j} pairs {a!r} with {b!r}", 0, 0
            i += n
            j += n
        elif op == "I":
            i += n
        elif op == "D":
            j += n
        else:
            return f"unexpected CIGAR operation {op!r}", 0, 0
    if i != len(read) or j != len(ref):
        return f"CIGAR consumes {i} read bases of {len(read)} and {j} path bases of {len(ref)}", 0, 0
    return None, matches, cols


def optimal(read, ref):
    """Gotoh: minimal gap-affine cost and one optimal CIGAR (read = query, ref = target)."""
    n, m = len(read), len(ref)
    INF = 10**9
    M = [[INF] * (m + 1) for _ in range(n + 1)]
    I = [[INF] * (m + 1) for _ in range(n + 1)]  # ends with an insertion (read base against gap)
    D = [[INF] * (m + 1) for _ in range(n + 1)]
    M[0][0] = 0
    for i in range(n + 1):
        for j in range(m + 1):
            if i > 0:
                I[i][j] = min(I[i - 1][j] + E, M[i - 1][j] + O + E, D[i - 1][j] + O + E)
            if j > 0:
                D[i][j] = min(D[i][j - 1] + E, M[i][j - 1] + O + E, I[i][j - 1] + O + E)
            if i > 0 and j > 0:
                s = 0 if read[i - 1] == ref[j - 1] else X
                M[i][j] = min(M[i - 1][j - 1], I[i - 1][j - 1], D[i - 1][j - 1]) + s
    best = min(M[n][m], I[n][m], D[n][m])
    # traceback
    ops = []
    i, j = n, m
    state = "M" if M[n][m] == best else ("I" if I[n][m] == best else "D")
    while i > 0 or j > 0:
        if state == "M":
            s = 0 if read[i - 1] == ref[j - 1] else X
            ops.append("=" if s == 0 else "X")
            v = M[i][j] - s
            i, j = i - 1, j - 1
            state = "M" if M[i][j] == v else ("I" if I[i][j] == v else "D")
        elif state == "I":
            ops.append("I")
            v = I[i][j]
            i -= 1
            state = "I" if I[i][j] + E == v else ("M" if M[i][j] + O + E == v else "D")
        else:
            ops.append("D")
            v = D[i][j]
            j -= 1
            state = "D" if D[i][j] + E == v else ("M" if M[i][j] + O + E == v else "I")
    ops.reverse()
    cg = "".join(f"{len(list(grp))}{op}" for op, grp in itertools.groupby(ops))
    return best, cg


def fragment(cg):
    return "".join((f"1{op}" * int(n)) if op in "ID" and int(n) > 1 else f"{n}{op}" for n, op in rgfa.cigar_runs(cg))


# ----------------------------------------------------------------------------------------------
# enumeration


def edits_of(target, max_edits, double_ok):
    """yield reads derived from the target by <= max_edits edits"""
    nxt = {"A": "C", "C": "G", "G": "T", "T": "A", "a": "C", "c": "G", "g": "T", "t": "A"}
    single = []
    L = len(target)
    for p in range(L):
        single.append(("sub", p, 1))
    for p in range(L + 1):
        single.append(("ins", p, 1))
        single.append(("ins", p, 2))
    for p in range(L):
        for k in (1, 2):
            if p + k <= L and k < L:
                single.append(("del", p, k))

    def apply(seq, eds):
        s = list(seq)
        for kind, p, k in sorted(eds, key=lambda e: -e[1]):
            if kind == "sub":
                s[p] = nxt[s[p]]
            elif kind == "ins":
                s[p:p] = list("GT"[:k])
            else:
                del s[p : p + k]
        return "".join(s)

    yield (), target
    for e in single:
        r = apply(target, [e])
        if r:
            yield (e,), r
    if max_edits >= 2 and double_ok:
        for a, b in itertools.combinations(single, 2):
            if a[1] == b[1] and a[0] != "ins" and b[0] != "ins":
                continue
            if a[0] == "del" and a[1] <= b[1] < a[1] + a[2]:
                continue
            r = apply(target, [a, b])
            if r:
                yield (a, b), r


def targets(g, max_steps):
    for steps in gen.step_sequences(list(g.segs), max_steps):
        seq = g.spell(steps)
        for s in range(len(seq)):
            for e in range(s + 1, len(seq) + 1):
                yield steps, s, e, seq


def plan(tier, seed):
    n = NSHARD[tier]
    return [{"shard": i, "of": n} for i in range(n)] + [{"boundary": True}]


def run_realign_file(scratch, g_text, fasta_text, recs, tag="ra"):
    from gaftools.cli import realign as R
    import gc

    d = os.path.join(scratch, tag)
    os.makedirs(d, exist_ok=True)
    for f in os.listdir(d):
        os.remove(os.path.join(d, f))
    fw.write_text(os.path.join(d, "g.gfa"), g_text)
    fw.write_text(os.path.join(d, "r.fa"), fasta_text)
    text = "".join(r.line() + "\n" for r in recs)
    if len(text) % 3 == 1:
        text = text[:-1]  # some input files end without a newline
    fw.write_text(os.path.join(d, "in.gaf"), text)
    outp = os.path.join(d, "out.gaf")
    out = fw.guarded(R.run_realign, gaf=os.path.join(d, "in.gaf"), graph=os.path.join(d, "g.gfa"), fasta=os.path.join(d, "r.fa"), output=outp, cores=1, _trigger_s=1200)
    gc.collect()
    lines = []
    if os.path.exists(outp):
        lines = [l for l in open(outp).read().split("\n") if l != ""]
    return out, lines


def judge_one(g, reads, rin, line):
    """-> list of (kind, text) for one output line"""
    bad = []
    try:
        rout = rgfa.Rec.parse(line)
    except Exception as e:
        return [("unparsable", f"{line!r}: {e}")], None
    read = reads[rin.qname][rin.qs : rin.qe]
    ref = g.spell(rgfa.parse_steps(rin.path))[rin.ps : rin.pe]
    if rin.qe - rin.qs > 60_000:
        if line != rin.line():
            bad.append(("passthrough-changed", f"a record of {rin.qe - rin.qs} read bases must pass through unchanged: {line[:120]!r}"))
        return bad, None
    a, b = rin.cols(), rout.cols()
    for i in (0, 1, 2, 3, 4, 5, 6, 7, 8, 11):
        if a[i] != b[i]:
            bad.append(("column-changed", f"column {i + 1} changed {a[i]!r} -> {b[i]!r}"))
    if rin.opt_without("cg") != rout.opt_without("cg"):
        bad.append(("optional-fields-changed", f"optional fields {rin.opt} -> {rout.opt}"))
    cg = rout.opt_get("cg")
    if cg is None:
        bad.append(("no-cigar", "the output record has no cg field"))
        return bad, None
    err, matches, cols = replay_cigar(cg, read, ref)
    if err:
        bad.append(("invalid-cigar", f"{rin.path} [{rin.ps},{rin.pe}) read {read[:40]!r} vs path {ref[:40]!r}: output cg {cg[:60]}: {err}"))
        return bad, None
    if rout.matches != matches or rout.block != cols:
        bad.append(("match-or-block-column", f"cg {cg[:60]} has {matches} matches over {cols} columns, the record says {rout.matches}/{rout.block}"))
    cost = cigar_cost(cg)
    cin = rin.opt_get("cg")
    if cin is not None:
        e_in, _, _ = replay_cigar(cin, read, ref)
        if e_in is None and cost > cigar_cost(cin):
            bad.append(("worse-than-input", f"read {read[:40]!r} vs path {ref[:40]!r}: output cg {cg[:60]} costs {cost}, the input cg {cin[:60]} costs {cigar_cost(cin)}"))
    opt = None
    if len(read) * len(ref) <= 40_000:  # the quadratic DP is only for the small strings
        opt = cost == optimal(read, ref)[0]
    return bad, opt


def judge_records(res, g, reads, recs, out, lines, info, scratch=None):
    if out.kind != "ok":
        ctx = recs[:50]
        if scratch is not None:
            # the shortest prefix of the file on which the command still fails, then its last record alone
            def fails(lst):
                fa = "".join(f">{q}\n{reads[q]}\n" for q in dict.fromkeys(r.qname for r in lst))
                o, ls = run_realign_file(scratch, g.text(), fa, lst, tag="shrink")
                return o.kind != "ok"

            lo, hi = 1, len(recs)
            while lo < hi:
                mid = (lo + hi) // 2
                if fails(recs[:mid]):
                    hi = mid
                else:
                    lo = mid + 1
            ctx = [recs[lo - 1]] if fails([recs[lo - 1]]) else recs[:lo][-3000:]
        res.fail(f"C12/realign-failed:{out.sig()}", f"realign failed on {len(recs)} valid records ({out.brief()}); still fails on {len(ctx)} of them, the last being {ctx[-1].path} [{ctx[-1].ps},{ctx[-1].pe})",
                 {"gfa": g.text(), "reads": {r.qname: reads[r.qname] for r in ctx}, "records": [r.line() for r in ctx]})
        return
    if len(lines) != len(recs):
        res.fail("C12/record-count", f"{len(recs)} records in, {len(lines)} out", {"gfa": g.text(), "reads": {r.qname: reads[r.qname] for r in recs[:50]}, "records": [r.line() for r in recs[:50]]})
        return

    def shrink(idx, kind):
        """smallest file context in which the record at idx still fails in the same way (a failure may depend on the
        records before it in the file)"""
        from mc import conv

        def still(lst):
            fa = "".join(f">{q}\n{reads[q]}\n" for q in dict.fromkeys(r.qname for r in lst))
            o, ls = run_realign_file(scratch, g.text(), fa, lst, tag="shrink")
            if o.kind != "ok" or len(ls) != len(lst):
                return True
            return any(k == kind for k, t in judge_one(g, reads, lst[-1], ls[-1])[0])

        return conv.shrink_context(recs, idx, still)

    for idx, (rin, line, (nedits, rev)) in enumerate(zip(recs, lines, info)):
        res.evaluations += 1
        if nedits or rev:
            res.nt(fw.h64(rin.line() + reads[rin.qname]))
        bad, opt = judge_one(g, reads, rin, line)
        if opt is True:
            res.count("outputs_optimal")
        elif opt is False:
            res.count("outputs_not_optimal(info)")
        for kind, text in bad:
            ctx = [rin]
            if scratch is not None and res.would_keep(f"C12/{kind}"):
                ctx = shrink(idx, kind)
            case = {"gfa": g.text(), "reads": {r.qname: reads[r.qname] for r in ctx}, "records": [r.line() for r in ctx]}
            res.fail(f"C12/{kind}", text + (f" (only after {len(ctx) - 1} earlier record(s) in the same file)" if len(ctx) > 1 else ""), case)


def prime(scratch, g, reads, recs):
    """one realign call in this process on a sibling graph first: same segment and read names, other sequences. A result
    must not depend on what an earlier call has seen (caches keyed by path string, read name, ...)."""
    sib = rgfa.Graph()
    for s_ in g.segs.values():
        sib.add_seg(s_.id, rgfa.revcomp(s_.seq)[::-1][::-1].replace("A", "t").replace("C", "A").replace("t", "C"), s_.tags)
    sib.links = list(g.links)
    few = recs[:40]
    names = list(dict.fromkeys(r.qname for r in few))
    fa = "".join(f">{q}\n{reads[q][::-1]}\n" for q in names)
    run_realign_file(scratch, sib.text(), fa, few, tag="prime")


def run_shard(spec, tier, scratch):
    res = fw.ShardResult()
    if spec.get("boundary"):
        boundary(res, scratch)
        return res
    b = bounds(tier)
    g = graph()
    recs, info, reads = [], [], {}
    n = 0
    forms = ("optimal", "fragmented", "worst", "none")
    for steps, s, e, seq in targets(g, b["max_steps"]):
        target = seq[s:e]
        for eds, read_mid in edits_of(target, b["max_edits"], len(target) <= b["double_edit_max_target"]):
            n += 1
            if n % spec["of"] != spec["shard"]:
                continue
            flankl, flankr = "TG"[: n % 3], "CAT"[: n % 4]
            read = flankl + read_mid + flankr
            qname = f"q{n}"
            reads[qname] = read
            qs, qe = len(flankl), len(flankl) + len(read_mid)
            best, cgopt = optimal(read_mid, target)
            form = forms[n % 4]
            if form == "optimal":
                cg = cgopt
            elif form == "fragmented":
                cg = fragment(cgopt)
            elif form == "worst":
                cg = f"{len(target)}D{len(read_mid)}I"
            else:
                cg = None
            # (integer fields in non-canonical but valid spelling: an explicit '+', leading zeros)
            opt = ["tp:A:P", ("NM:i:3", "NM:i:+3", "NM:i:03")[n % 3]] + ([f"cg:Z:{cg}"] if cg else []) + ["zz:Z:k_p"] + (["s1:i:007"] if n % 5 == 2 else []) + (["ml:B:C,12,200,3", "bc:H:1AE301"] if n % 7 == 3 else [])
            # column 10 of the INPUT is whatever the first aligner claimed (here: every base matches)
            m = len(read_mid)
            bl = sum(int(x) for x, op in rgfa.cigar_runs(cg or "")) or len(read_mid)
            recs.append(rgfa.Rec(qname, len(read), qs, qe, "+", rgfa.steps_str(steps), len(seq), s, e, m, bl, 60, opt))
            info.append((len(eds), any(o == "<" for o, x in steps)))
    fasta = "".join(f">{q}\n{s_}\n" for q, s_ in reads.items())
    prime(scratch, g, reads, recs)
    out, lines = run_realign_file(scratch, g.text(), fasta, recs)

    judge_records(res, g, reads, recs, out, lines, info, scratch)
    if recs and spec["shard"] == 0:
        k = len(recs) // 2
        res.sample({"record": recs[k].line(), "read": reads[recs[k].qname], "path_sequence": g.spell(rgfa.parse_steps(recs[k].path)), "output": lines[k] if k < len(lines) else None})
    return res


def boundary(res, scratch):
    """the 60 kb guard: exactly 60,000 read bases are realigned, 60,001 pass through unchanged"""
    g = rgfa.Graph()
    big = gen._seq(60_020, 5)
    g.add_seg("b1", big, [("LN", "i", str(len(big))), ("SN", "Z", "chr1"), ("SO", "i", "0"), ("SR", "i", "0")])
    g.add_seg("b2", "ACGT", [("LN", "i", "4"), ("SN", "Z", "chr1"), ("SO", "i", str(len(big))), ("SR", "i", "0")])
    g.add_link("b1", "+", "b2", "+", "0M")
    reads = {"long": big[5:] + "ACGT"}
    recs, info = [], []
    for n, qlen in enumerate((59_999, 60_000, 60_001, 60_002)):
        # the input CIGAR is deliberately wrong-looking (fragmented): a realigned record gets a fresh one, a passed-through keeps it
        cg = f"{qlen - 10}=5X5=" if n % 2 == 0 else f"{qlen - 10}M5X5M"  # every other one in the M flavour of minimap2 / minigraph
        recs.append(rgfa.Rec("long", len(reads["long"]), 0, qlen, "+", ">b1>b2", len(big) + 4, 5, 5 + qlen, qlen - 5, qlen, 60, ["tp:A:P", f"cg:Z:{cg}", "zz:Z:t_1", "s1:i:+007", "ml:B:C,12,200,3", "bc:H:1AE301"]))
        info.append((1, False))
    # the guard is on the READ span: 60,001 read bases over 59,991 path bases pass through, 59,995 read bases over
    # 60,005 path bases are realigned
    ins = "ACGTTGCAAC"
    reads["longins"] = big[5:30_005] + ins + big[30_005:60_001 - 10 + 5]
    recs.append(rgfa.Rec("longins", len(reads["longins"]), 0, 60_001, "+", ">b1>b2", len(big) + 4, 5, 5 + 59_991, 59_991, 60_001, 60, ["tp:A:P", "cg:Z:30000=5I5I29991=", "zz:Z:t_2"]))
    info.append((1, False))
    reads["longdel"] = big[5:30_005] + big[30_015:60_010]
    recs.append(rgfa.Rec("longdel", len(reads["longdel"]), 0, 59_995, "+", ">b1>b2", len(big) + 4, 5, 5 + 60_005, 59_995, 60_005, 60, ["tp:A:P", "cg:Z:30000=5D5D29995=", "zz:Z:t_3"]))
    info.append((1, False))
    # long reads (> 10 kb) with two large gaps; the input CIGAR is the exact edit script, so its cost is the bar
    gapA, gapB = gen._seq(150, 77), 150
    for k, (first, second) in enumerate((("I", "D"), ("D", "I"), ("I", "I"), ("D", "D"))):
        p0, L = 100, 12_400
        path_slice = big[p0 : p0 + L]
        read, cg, pos = "", "", 0
        for j, kind in enumerate((first, second)):
            seg_end = 4_000 * (j + 1)
            read += path_slice[pos:seg_end]
            cg += f"{seg_end - pos}="
            pos = seg_end
            if kind == "I":
                read += gapA
                cg += "150I"
            else:
                pos += gapB
                cg += "150D"
        read += path_slice[pos:]
        cg += f"{L - pos}="
        q = f"gaps{first}{second}"
        reads[q] = read
        recs.append(rgfa.Rec(q, len(read), 0, len(read), "+", ">b1>b2", len(big) + 4, p0, p0 + L, L - 300, L + 150, 60, ["tp:A:P", f"cg:Z:{cg}", "zz:Z:t_4"]))
        info.append((2, False))
    # medium reads of equal length with a compensating insertion + deletion a few bases apart (the input CIGAR carries
    # the two gaps, cost 16; an ungapped reading of the same pair costs more)
    for L in (200, 600, 1000, 5000):
        for dist in (3, 9, 50):
            p0, a = 300, L // 2
            path_slice = big[p0 : p0 + L]
            read = path_slice[:a] + "T" + path_slice[a : a + dist] + path_slice[a + dist + 1 :]
            if len(read) != L:
                continue
            cg = f"{a}=1I{dist}=1D{L - a - dist - 1}="
            q = f"comp{L}_{dist}"
            reads[q] = read
            recs.append(rgfa.Rec(q, L, 0, L, "+", ">b1>b2", len(big) + 4, p0, p0 + L, L - 1, L + 1, 60, ["tp:A:P", f"cg:Z:{cg}", "zz:Z:t_5"]))
            info.append((2, False))
    # two deletions of 15-40 bases separated by 2-3 bases: the input CIGAR with two gaps is optimal under the linear gap
    # penalties (6 + 2 per base); a scoring scheme that makes long gaps cheaper would merge them into one gap plus mismatches
    for gl in (15, 19, 25, 40):
        for mid in (2, 3):
            p0, a = 700, 100
            left, d1 = big[p0 : p0 + a], p0 + a
            midseq = big[d1 + gl : d1 + gl + mid]
            d2 = d1 + gl + mid
            right = big[d2 + gl : d2 + gl + 100]
            read = left + midseq + right
            L = a + gl + mid + gl + 100
            cg = f"{a}={gl}D{mid}={gl}D100="
            q = f"twodel{gl}_{mid}"
            reads[q] = read
            recs.append(rgfa.Rec(q, len(read), 0, len(read), "+", ">b1>b2", len(big) + 4, p0, p0 + L, len(read), L, 60, ["tp:A:P", f"cg:Z:{cg}", "zz:Z:t_6"]))
            info.append((2, False))
    fasta = "".join(f">{q}\n{s_}\n" for q, s_ in reads.items())
    out, lines = run_realign_file(scratch, g.text(), fasta, recs, tag="big")
    judge_records(res, g, reads, recs, out, lines, info, scratch)
    res.count("boundary_records", len(recs))


def replay(case, scratch):
    res = fw.ShardResult()
    g = rgfa.Graph.parse(case["gfa"])
    recs = [rgfa.Rec.parse(l) for l in case["records"]]
    reads = case["reads"]
    if any(len(v) > 50_000 for v in reads.values()) is False and any(r.qe - r.qs > 50_000 for r in recs):
        pass
    fasta = "".join(f">{q}\n{s_}\n" for q, s_ in reads.items())
    prime(scratch, g, reads, recs)
    out, lines = run_realign_file(scratch, case["gfa"], fasta, recs)
    judge_records(res, g, reads, recs, out, lines, [(1, False)] * len(recs), None)
    return res.failures
