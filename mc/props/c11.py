"""C11 - realign output is exactly-once and in input order under every schedule.

Model checking of the real collection loop: `run_realign`/`realign_gaf` run unmodified on a virtual
multiprocessing (mc/vmp.py); all interleavings of parent operations with worker events are enumerated
(deviation-bounded without pruning, and completely with canonical-state pruning), each terminal execution is
checked, and explored schedules are replayed on real processes and a real mp.Queue (mc/realmp.py)."""

import os

from mc import framework as fw
from mc import realign_common as rc

ID = "C11"
LEVEL = "model_checking"
ENGINE = "E1-schedule-fault-explorer"
TECHNIQUE = (
    "stateless model checking of the implementation: exhaustive schedule enumeration (iterative deviation bounding + "
    "complete exploration with canonical-state pruning) under a virtual multiprocessing, schedules replayed on real processes"
)
RULE = (
    "configurations (cores, batch size via GAFTOOLS_VERIF_BATCH, record count, cpu_count) x every interleaving of parent "
    "operations (Queue.get/timeouts, start, is_alive, exitcode, join) with worker events (deliver one result, exit): "
    "all schedules with <= B deviations from the eager-worker default, unpruned, plus the complete schedule tree with "
    "pruning on canonical states. evaluations = executions of run_realign; an execution is non-trivial when it contains "
    ">=1 queue timeout or a non-default worker order; distinct = distinct (configuration, choice sequence)."
)
ASSUMPTIONS = [
    "mp.Queue/mp.Process semantics as modelled in mc/vmp.py (FIFO pipe, Empty only when nothing is visible, exit after all puts are flushed); validated on every run by replaying explored schedules on real processes",
    "torn pipe writes, a child killed while holding the queue lock and fork failure are below the modelled granularity",
    "canonical state = realign.py frame line numbers and simple locals + captured output + per-worker progress + queue contents; pruning is disabled if a frame holds locals of unknown kind",
    "configurations beyond 3 cores / 6 records / batch 2 are outside the explored space",
    "configurations with a bounded pipe (capacity 1-2 messages: a worker blocks in its feeder until the parent reads) are explored on the model only; a real pipe holds 64 KiB",
]
LEVEL_TEXT = (
    "The real parent loop is executed under every schedule of the closed system (2-6 workers, 1-2 records each) up to the "
    "stated deviation bound and, with state pruning, over the complete schedule tree; every terminal state is checked "
    "against the single-core output. This is the level at which the known failure mode (a queue read timing out while "
    "workers finish) is systematically reachable; tests sample one schedule."
)
LEVEL_NOTE = (
    "Trusted base: the environment model of multiprocessing in mc/vmp.py, bound to the real implementation by real-process "
    "replay of explored schedules on every run (traces_validated_against_impl)."
)
DESIGN_REF = "DESIGN.md §2"
EXHAUSTIVE = True


def bounds(tier):
    return {
        "deviation_bound_unpruned": 3 if tier == "quick" else 4,
        "complete_with_pruning": True,
        "configs": len(rc.configs(tier)),
        "exec_cap_per_shard": CAP[tier],
        "exec_cap_per_complete_exploration": CAP_COMPLETE[tier],
        "exec_cap_per_unpruned_exploration": CAP_UNPRUNED[tier],
        "horizon_parent_ops": 400,
    }


CAP = {"quick": 20000, "thorough": 400000}  # executions per shard (all its explorations together)
CAP_COMPLETE = {"quick": 20000, "thorough": 100000}  # per complete (pruned) exploration of one configuration / fault
CAP_UNPRUNED = {"quick": 20000, "thorough": 60000}  # per deviation-bounded unpruned exploration (cross-check of the pruning)
REAL_REPLAYS = {"quick": 3, "thorough": 8}
OPS_PER_EXEC = 60
STARVE_K = 3000  # consecutive timed-out reads (25 minutes at the 0.5 s of the main loop)


def plan(tier, seed):
    return [{"config": c, "i": i} for i, c in enumerate(rc.configs(tier))] + [{"real_inputs": True}]


def real_input_runs(res, scratch, tier):
    """Input dimension of the property on real processes under the OS scheduler's own schedule: files that mix ordinary
    reads with reads of more than 60,000 bases (passed through by the workers) under several batch sizes and core
    counts, and one run with very many tiny batches under a lowered open-file limit (every worker costs descriptors)."""
    import gc
    import resource
    from gaftools.cli import realign as R
    from mc import gen

    d = os.path.join(scratch, "realin")
    os.makedirs(d, exist_ok=True)
    fw.write_text(os.path.join(d, "g.gfa"), rc.GFA_TEXT)
    long_seq = gen._seq(60_010, 3)

    def build(pattern):
        fa, gaf = [f">big\n{long_seq}\n"], []
        for i, kind in enumerate(pattern):
            if kind == "L":
                gaf.append(f"big\t60010\t0\t60001\t+\t>s1>s2\t18\t0\t18\t18\t60001\t{i}\ttp:A:P\tcg:Z:60001=\trn:i:{i}\n")
            else:
                k = i % 6
                fa.append(f">r{i}\n{rc.PATHSEQ[k:k + 8]}\n")
                gaf.append(f"r{i}\t8\t0\t8\t+\t>s1>s2\t18\t{k}\t{k + 8}\t8\t8\t60\ttp:A:P\tcg:Z:8=\trn:i:{i}\n")
        fw.write_text(os.path.join(d, "r.fa"), "".join(fa))
        fai = os.path.join(d, "r.fa.fai")
        if os.path.exists(fai):
            os.remove(fai)
        fw.write_text(os.path.join(d, "a.gaf"), "".join(gaf))

    def run(cores, batch):
        outp = os.path.join(d, "out.gaf")
        if os.path.exists(outp):
            os.remove(outp)
        if batch is None:
            os.environ.pop("GAFTOOLS_VERIF_BATCH", None)
        else:
            os.environ["GAFTOOLS_VERIF_BATCH"] = str(batch)
        try:
            o = fw.guarded(R.run_realign, gaf=os.path.join(d, "a.gaf"), graph=os.path.join(d, "g.gfa"), fasta=os.path.join(d, "r.fa"), output=outp, cores=cores, _trigger_s=900)
        finally:
            os.environ.pop("GAFTOOLS_VERIF_BATCH", None)
        gc.collect()
        return o, (open(outp).read() if os.path.exists(outp) else "")

    patterns = ["ssLss", "Lsss", "sssL", "sLsLs", "ssssssLssssss"]
    if tier == "thorough":
        patterns += ["LL", "sLLs", "s" * 7 + "L" + "s" * 7 + "L" + "s" * 3]
    for pat in patterns:
        build(pat)
        ref_o, ref = run(1, None)
        order = [l.split("\t")[-1] for l in ref.split("\n") if l]
        case = {"real_inputs": pat, "cores": 1, "batch": None}
        if ref_o.kind != "ok" or order != [f"rn:i:{i}" for i in range(len(pat))]:
            res.fail("C11/real-run:single-core-order", f"records {pat} (L = more than 60,000 read bases) on one core, default batch: {ref_o.brief()}, record order {order}", case)
            continue
        for cores in (1, 2, 3):
            for batch in (1, 2, 3, 4):
                o, text = run(cores, batch)
                res.evaluations += 1
                res.nt(fw.h64(["realin", pat, cores, batch]))
                res.count("real_process_runs_on_mixed_inputs")
                if o.kind != "ok" or text != ref:
                    got = [l.split("\t")[-1] for l in text.split("\n") if l]
                    res.fail("C11/real-run:differs-from-single-core", f"records {pat}, --cores {cores}, {batch} record(s) per worker: {o.brief()}; output order {got} differs from the single-core file",
                             {"real_inputs": pat, "cores": cores, "batch": batch})
    # the real batch size (1000; no hook): files of 101, 152, 1003 and 2005 short records, 1-3 cores, against the single-core file
    for nrec in (101, 152, 1003, 2005):
        build("s" * nrec)
        ref_o, ref = run(1, None)
        for cores in (2, 3):
            o, text = run(cores, None)
            res.evaluations += 1
            res.nt(fw.h64(["default-batch", nrec, cores]))
            res.count("real_process_runs_with_the_default_batch_size")
            if ref_o.kind != "ok" or o.kind != "ok" or text != ref or len([l for l in ref.split("\n") if l]) != nrec:
                got = [l.split("\t")[0] for l in text.split("\n") if l]
                first = next((i for i, (a, b) in enumerate(zip(got + [None] * nrec, [f"r{i}" for i in range(nrec)])) if a != b), None)
                res.fail("C11/real-run:default-batch", f"{nrec} records, default batch size, --cores {cores}: {o.brief()}; {len(got)} records written, first difference from the input order at record {first}",
                         {"real_inputs": "s" * nrec, "cores": cores, "batch": None})
    # many workers under a tight descriptor limit
    n = 400 if tier == "quick" else 1500
    build("s" * n)
    soft, hard = resource.getrlimit(resource.RLIMIT_NOFILE)
    resource.setrlimit(resource.RLIMIT_NOFILE, (256, hard))
    try:
        o, text = run(2, 1)
    finally:
        resource.setrlimit(resource.RLIMIT_NOFILE, (soft, hard))
    res.evaluations += 1
    res.count("worker_processes_under_descriptor_limit", n)
    names = [l.split("\t")[0] for l in text.split("\n") if l]
    if o.kind != "ok" or names != [f"r{i}" for i in range(n)]:
        res.fail("C11/real-run:many-workers", f"{n} one-record workers with at most 256 open files: {o.brief()}, {len(names)} of {n} records written", {"real_inputs": "s" * n, "cores": 2, "batch": 1, "nofile": 256})
    # the same on a host that reports a single CPU (the --cores clamp is computed from cpu_count), --cores 1 and 2
    import multiprocessing as _mp

    real_cc = _mp.cpu_count
    for cores in (1, 2):
        resource.setrlimit(resource.RLIMIT_NOFILE, (256, hard))
        _mp.cpu_count = lambda: 1
        try:
            o, text = run(cores, 1)
        finally:
            _mp.cpu_count = real_cc
            resource.setrlimit(resource.RLIMIT_NOFILE, (soft, hard))
        res.evaluations += 1
        res.count("worker_processes_under_descriptor_limit", n)
        names = [l.split("\t")[0] for l in text.split("\n") if l]
        if o.kind != "ok" or names != [f"r{i}" for i in range(n)]:
            res.fail(f"C11/real-run:many-workers-one-cpu", f"host with cpu_count() = 1, --cores {cores}, {n} one-record workers with at most 256 open files: {o.brief()}, {len(names)} of {n} records written",
                     {"real_inputs": "s" * n, "cores": cores, "batch": 1, "nofile": 256, "cpu_count": 1})
    res.sample({"real_process_inputs": patterns, "batches": [1, 2, 3, 4], "cores": [1, 2, 3]})


def judge(x, expected):
    """None if the execution satisfies C11, else (sig, what)."""
    names = rc.out_names(x.output)
    if x.outcome == ("return",):
        if x.output == expected:
            return None
        exp_names = rc.out_names(expected)
        if names == exp_names:
            return ("C11/output-differs", "same records but the bytes differ from the single-core output")
        dup = sorted({n for n in names if names.count(n) > 1})
        missing = [n for n in exp_names if n not in names]
        if dup:
            return ("C11/duplicated-records", f"returned normally with duplicated records {dup}: {names}")
        if missing:
            return ("C11/missing-records", f"returned normally without records {missing}: {names}")
        return ("C11/reordered-records", f"records out of input order: {names}")
    if x.outcome[0] == "hang":
        return (f"C11/hang-{x.outcome[1]}", f"no fault injected but the parent never finishes ({x.outcome[1]})")
    if x.outcome[0] == "exit":
        return ("C11/spurious-exit", f"no fault injected but the command exits with {x.outcome[1]!r} after writing {names}")
    return (f"C11/exception-{x.outcome[1]}", f"no fault injected but {x.outcome[1]} escapes from {x.outcome[2]}")


def explore_config(res, c, scratch, tier, fault=None, judge_fn=None, tag="C11", dev_bound=None, budget=None, cap_unpruned=None):
    from mc import vmp

    cfg = rc.cfg_for(scratch, c)
    expected, ref = rc.reference_output(cfg, c["nrec"])
    if expected is None:
        res.fail(
            f"{tag}/reference-run",
            f"the undisturbed single-core run does not produce one record per input record: {ref.outcome} {rc.out_names(ref.output)}",
            {"config": c, "schedule": [], "fault": None},
        )
        return
    jf = judge_fn or (lambda x: judge(x, expected))
    picks = {}
    seen_exec = set()
    nviol = [0]
    enough = lambda: nviol[0] >= 200  # the violation is established; the rest of this configuration's tree adds nothing

    def on_exec(x):
        key = (tuple(x.choices))
        if key in seen_exec:
            return
        seen_exec.add(key)
        res.evaluations += 1
        if x.timeouts or any(ch != 0 for ch in x.choices):
            res.nt(fw.h64([rc.cfg_key(c), fault, x.choices]))
        if x.timeouts:
            res.count("executions_with_timeout")
        if x.races:
            res.count("executions_with_event_between_timeout_and_liveness_read")
        res.seen("outcomes", repr((x.outcome[0], len(rc.out_names(x.output)))))
        v = jf(x)
        if v is not None:
            nviol[0] += 1
            res.fail(v[0], f"[{rc.cfg_key(c)}{', fault ' + str(fault) if fault else ''}] {v[1]}; schedule {x.choices}",
                     {"config": c, "schedule": x.choices, "fault": fault})
        # candidates for real-process replay
        for name, ok in (
            ("default", not x.choices or all(ch == 0 for ch in x.choices)),
            ("timeout1", x.timeouts == 1),
            ("timeout2", x.timeouts >= 2),
            ("race", x.races > 0),
            ("violation", v is not None),
        ):
            if ok and name not in picks:
                picks[name] = x
        if "longest" not in picks or len(x.points) > len(picks["longest"].points):
            picks["longest"] = x

    b = dev_bound if dev_bound is not None else bounds(tier)["deviation_bound_unpruned"]
    if budget is None:
        budget = [CAP[tier]]
    # the complete (pruned) exploration first: it is the one that covers the whole schedule tree; the unpruned
    # deviation-bounded one gets what is left of the shard's budget
    # executions of the explored configurations have fewer than 100 parent operations; a changed implementation whose
    # executions are much longer is cut off by the operation budget instead of running for hours
    e2 = vmp.Explorer(cfg, fault=fault, bound=None, on_exec=on_exec, max_execs=max(1, min(CAP_COMPLETE[tier], budget[0])), prune=True, max_ops=OPS_PER_EXEC * max(1, min(CAP_COMPLETE[tier], budget[0])), should_stop=enough).explore()
    budget[0] -= max(e2.execs, e2.ops // OPS_PER_EXEC)
    e1 = vmp.Explorer(cfg, fault=fault, bound=b, on_exec=on_exec, max_execs=max(1, min(cap_unpruned or CAP_UNPRUNED[tier], budget[0] // 2)), max_ops=OPS_PER_EXEC * max(1, min(cap_unpruned or CAP_UNPRUNED[tier], budget[0] // 2)), should_stop=enough).explore()
    budget[0] -= max(e1.execs, e1.ops // OPS_PER_EXEC)
    if fault is None:
        # threads started by the parent (if the code has any), in their laziest legal schedule: see vmp.VThreads
        x = vmp.Exec(cfg, [], None, lazy_threads=True).run()
        if x.vthreads is not None and x.vthreads.used:
            res.count("executions_with_lazily_scheduled_parent_threads")
            v = jf(x)
            if v is not None:
                res.fail(v[0] + ":parent-threads", f"[{rc.cfg_key(c)}] with the parent's own threads run late, most recently started first (nothing but join orders them): {v[1]}",
                         {"config": c, "schedule": x.choices, "fault": None, "lazy_threads": True})
    if fault is None:
        # a worker that is slow for a long time: the parent times out STARVE_K times in a row at each of the first points
        for i in range(4):
            x = vmp.Exec(cfg, [], None, starve=(i, STARVE_K)).run()
            res.count("starvation_executions")
            if x.starved > 1:
                res.count("starvation_executions_with_repeated_timeouts")
            v = jf(x)
            if v is not None:
                res.fail(v[0] + ":after-many-timeouts", f"[{rc.cfg_key(c)}] the parent's queue read times out {x.starved} times in a row while the workers are slow (from choice point {i} on): {v[1]}",
                         {"config": c, "schedule": x.choices, "fault": None, "starve": [i, STARVE_K]})
    res.count("executions_bounded_unpruned", e1.execs)
    res.count("executions_complete_pruned", e2.execs)
    res.count("states", len(e1.states | e2.states))
    res.count("transitions", e1.transitions + e2.transitions)
    if e2.capped:
        # the complete exploration did not finish: this configuration / fault is not covered exhaustively
        res.count("explorations_capped")
        res.seen("capped_configs", rc.cfg_key(c) + (str(fault) if fault else ""))
    if e1.capped:
        res.count("unpruned_cross_checks_capped")
    if e2.opaque:
        res.count("explorations_with_pruning_disabled")
    return cfg, picks


def real_replays(res, c, cfg, picks, fault, tier, limit):
    order = ["violation", "timeout1", "race", "default", "timeout2", "longest"]
    done = set()
    n = 0
    for name in order:
        x = picks.get(name)
        if x is None or tuple(x.choices) in done or n >= limit:
            continue
        done.add(tuple(x.choices))
        n += 1
        err = rc.conform_real(cfg, x.choices, fault, x)
        if err == "SKIPPED":
            res.count("schedules_with_shared_semaphores_not_replayed_on_real_processes")
            res.sample(rc.schedule_sample(x, c, fault))
        elif err is None:
            res.count("traces_validated_against_impl")
            res.sample(rc.schedule_sample(x, c, fault))
        else:
            raise fw.HarnessError(
                f"real-process replay of schedule {x.choices} ({rc.cfg_key(c)}, fault {fault}) does not conform to the model: {err}"
            )


def run_shard(spec, tier, scratch):
    res = fw.ShardResult()
    if spec.get("real_inputs"):
        real_input_runs(res, scratch, tier)
        return res
    c = spec["config"]
    r = explore_config(res, c, scratch, tier)
    if r is not None and not c.get("pipe"):
        cfg, picks = r
        # (a one-message pipe cannot be reproduced with a real 64 KiB pipe: those configurations are model-only)
        real_replays(res, c, cfg, picks, None, tier, REAL_REPLAYS[tier])
        if tier == "thorough" and c["nrec"] <= 2 and c["cpu_count"] == 16:
            # the smallest configurations: EVERY schedule with <= 2 deviations is replayed on real processes
            from mc import vmp

            def on(x):
                err = rc.conform_real(cfg, x.choices, None, x)
                if err == "SKIPPED":
                    return
                if err is not None:
                    raise fw.HarnessError(f"real-process replay of schedule {x.choices} ({rc.cfg_key(c)}) does not conform to the model: {err}")
                res.count("traces_validated_against_impl")
                res.count("all_schedules_replayed_on_real_processes")

            vmp.Explorer(cfg, bound=2, on_exec=on, max_execs=400).explore()
    return res


def finalize(results, tier):
    st = {}
    for r in results:
        for k, v in r.get("stats", {}).items():
            st[k] = st.get(k, 0) + v
    out = {
        "coverage": {
            "states": st.get("states", 0),
            "transitions": st.get("transitions", 0),
            "traces_validated_against_impl": st.get("traces_validated_against_impl", 0),
            "executions_with_timeout": st.get("executions_with_timeout", 0),
            "explorations_capped": st.get("explorations_capped", 0),
            "unpruned_cross_checks_capped": st.get("unpruned_cross_checks_capped", 0),
        }
    }
    if st.get("executions_with_timeout", 0) == 0:
        out["harness_error"] = "vacuous exploration: no execution contained a queue timeout"
    if st.get("traces_validated_against_impl", 0) == 0 and not st.get("schedules_with_shared_semaphores_not_replayed_on_real_processes"):
        out["harness_error"] = "no schedule was validated on real processes"
    if st.get("explorations_capped", 0):
        out["coverage"]["exhaustive"] = False
    return out


def replay(case, scratch):
    """Re-execute one schedule: twice on the virtual environment (must agree), then on real processes."""
    from mc import vmp

    res = fw.ShardResult()
    if "real_inputs" in case:
        real_input_runs(res, scratch, "quick" if len(case["real_inputs"]) < 1000 else "thorough")
        return [f for f in res.failures if f["case"] == case] or res.failures
    c = case["config"]
    cfg = rc.cfg_for(scratch, c)
    expected, ref = rc.reference_output(cfg, c["nrec"])
    if expected is None:
        res.fail("C11/reference-run", f"single-core run broken: {ref.outcome}", case)
        return res.failures
    starve = tuple(case["starve"]) if case.get("starve") else None
    lazy = bool(case.get("lazy_threads"))
    x1 = vmp.Exec(cfg, case["schedule"], case.get("fault"), starve=starve, lazy_threads=lazy).run()
    x2 = vmp.Exec(cfg, case["schedule"], case.get("fault"), starve=starve, lazy_threads=lazy).run()
    if (x1.trace, x1.outcome, x1.output) != (x2.trace, x2.outcome, x2.output):
        raise fw.HarnessError("the same schedule gave two different executions")
    v = judge(x1, expected)
    if v is not None and lazy:
        res.fail(v[0] + ":parent-threads", v[1] + " [model only: the parent's threads run late, most recently started first]", case)
        return res.failures
    if v is not None and starve:
        res.fail(v[0] + ":after-many-timeouts", v[1] + f" [after {x1.timeouts} timed-out reads; model only: that many half-second timeouts are not replayed in real time]", case)
        return res.failures
    if v is not None:
        if c.get("pipe"):
            res.fail(v[0], v[1] + f" [model of a pipe holding {c['pipe']} message(s); a real pipe holds 64 KiB, i.e. this needs a batch whose results exceed it]", case)
            return res.failures
        err = rc.conform_real(cfg, case["schedule"], case.get("fault"), x1)
        if err == "SKIPPED":
            res.fail(v[0], v[1] + " [model only: the code shares semaphores/locks with its workers, which the real-process replay does not gate]", case)
            return res.failures
        if err is not None:
            raise fw.HarnessError(f"counterexample does not reproduce on real processes: {err}")
        res.fail(v[0], v[1] + " [reproduced with real processes and a real multiprocessing.Queue]", case)
    return res.failures
