"""C08 - sort orders alignments by (BO, NO, start) as a total order."""

import os
import itertools

from mc import framework as fw
from mc import rgfa
from mc import sortcommon as sc

ID = "C08"
LEVEL = "exploration"
TECHNIQUE = "bounded-exhaustive enumeration of every input sequence (all multisets in all orders) over a colliding-key record alphabet through run_sort, against a stable-sort reference"
RULE = (
    "graphs: a two-chromosome bubble chain tagged (i) by the real order_gfa (pipeline composition) and (ii) by the harness with an extra "
    "node carrying BO=NO=-1; records: a 19/20-record alphabet (strands + and -) whose keys collide pairwise in every prefix of (BO, NO, start) - equal BO / "
    "different NO, equal (BO,NO) / different start, exact ties, a reverse-anchored record tying with a forward one, one untagged key, a "
    "second chromosome; inputs: every sequence of <=N records (N=4 quick, 5 thorough), i.e. every multiset in every order. "
    "evaluations = sort runs; non-trivial = sequences of >=2 records that are not already in sorted order or contain a tie."
)
ASSUMPTIONS = [
    "only one distinct untagged key is used, so the order among differently-keyed untagged records (left open by the statement) is never judged",
    "anchor rule as documented in sort.py: first node, or last node when more scaffold nodes are reversed than forward",
]
LEVEL_TEXT = (
    "Every input order of every multiset up to the bound is sorted by the real command and compared with a stable sort by the "
    "documented key; a comparator that is not antisymmetric or transitive can only hide on particular input orders, and all of them "
    "are enumerated."
)
LEVEL_NOTE = "Trusts the 10-line key model in mc/sortcommon.py:sort_key and Python's sorted() as the reference order."
DESIGN_REF = "DESIGN.md §4 C08"
EXHAUSTIVE = True
NSHARD = {"quick": 16, "thorough": 48}


def bounds(tier):
    return {"max_records_per_file": 4 if tier == "quick" else 5, "alphabet": 20, "graphs": 3}


# the strand column (the read's strand) has no part in the sort key; some records carry '-'
STRAND = {"B": "-", "D": "-", "G": "-", "L": "-", "J": "-"}
# records that went through an earlier sort against another build of the graph: they arrive with bo/sn/iv fields
STALE = {"C": ["bo:i:41", "sn:Z:CHM13#0#chr1", "iv:i:0"], "K": ["bo:i:0", "sn:Z:unknown", "iv:i:1"]}


def alphabet(g, c1, c2, untagged):
    sc1 = [x for k, x in c1.order if k == "s"]
    bub = [x for k, x in c1.order if k == "b" and len(x) == 2][0]  # the snp bubble {ref allele, hap allele}
    a, b = sorted(bub, key=lambda n: int(g.segs[n].tag("SR")))  # a: reference allele, b: haplotype allele
    s1, s2 = sc1[0], sc1[1]
    sc2 = [x for k, x in c2.order if k == "s"]
    la = g.segs[a].LN + g.segs[s2].LN
    recs = [
        ("A", f">{s1}>{a}", 0, 2),
        ("B", f">{s1}>{b}", 1, 13),
        ("C", f">{a}>{s2}", 0, 2),
        ("D", f">{b}>{s2}", 0, 2),
        ("E", f">{b}>{s2}", 1, 3),
        ("F", f">{b}>{s2}", 1, 2),  # exact key tie with E
        ("G", f"<{s2}<{a}", 1, la),  # reverse-anchored on a with start 0: ties with C
        ("R", f"<{s2}<{a}", 1, la - 1),  # same path and same path start as G, another end: reverse-anchored start 1
        ("I", f">{sc2[0]}", 0, 1),
        ("J", f">{s1}>{a}", 9, 11),  # two-digit starts: 9 < 10 numerically, "10" < "9" as strings
        ("K", f">{s1}>{a}", 10, 12),
        ("L", f">{s2}<{sc1[2]}", 1, 3),  # as many scaffold nodes forward as reversed: anchored on the first node
        ("M", f">{sc1[2]}", 5, 7),  # sits between the two possible anchors of L
        ("S", f"<{sc1[2]}", 1, 3),  # one scaffold node traversed in reverse: start = LN - end = 9, behind M although its path start is 1
        # exact key ties with E and F that differ in the derived tags: Q has sn 'unknown' (no reference node), Y has iv 1
        ("Q", f">{b}", 1, 2),
        ("Y", f">{b}>{s2}<{sc1[2]}", 1, 3),
        # three scaffold nodes, the first one in the minority orientation: anchored on the LAST node (majority reversed)
        ("O", f">{sc1[1]}<{sc1[3]}<{sc1[2]}", 0, g.segs[sc1[1]].LN + g.segs[sc1[3]].LN + g.segs[sc1[2]].LN - 1),
    ]
    if untagged:
        recs.append(("H", ">u1", 2, 4))
        recs.append(("N", ">n70k", 0, 2))  # NO = 70001: does not fit 16 bits
        recs.append(("P", f">u1>{s1}", 1, 8))  # starts in the untagged node and continues into a tagged one: still anchored on u1
    else:
        recs.append(("H", f">{sc2[-1]}", 1, 2))
    return recs


def graphs(scratch):
    g, c1, c2 = sc.two_chrom_graph()
    out = []
    t = sc.tag_by_order_gfa(g, scratch)
    if t is not None:
        out.append(("pipeline", t, alphabet(t, c1, c2, False)))
    # same node ids, different tags (chr2 numbered before chr1, BO starting at 7): a result must not depend on
    # which graph an earlier sort call in the same process used
    m = sc.tag_by_model(g, [c2, c1], True, bo_start=7)
    out.append(("hand-tagged", m, alphabet(m, c1, c2, True)))
    # chromosomes ordered separately and concatenated: both BO ranges start at 0 (files of <= 3 records on this one)
    # (and both start at 1200: a region cut from a large ordered graph keeps BO values far above its number of segments)
    o = sc.tag_by_model(g, [c1, c2], True, bo_start=1200, restart_per_chain=True)
    out.append(("overlapping-BO-ranges", o, alphabet(o, c1, c2, True)))
    return out, t is None


LARGE = {"quick": 70_001, "thorough": 300_001}


def plan(tier, seed):
    n = NSHARD[tier]
    return [{"large": LARGE[tier]}] + [{"shard": i, "of": n} for i in range(n)]


def large_file(res, scratch, tier, nrec):
    """one deliberately large input (beyond 2^16 records) cycling through the alphabet, untagged records throughout"""
    gs, missing = graphs(scratch)
    gname, g, alpha = gs[-1]
    gfa_path = os.path.join(scratch, gname + ".gfa")
    fw.write_text(gfa_path, g.text())
    recs = []
    for pos in range(nrec):
        name, path, ps, pe = alpha[(pos * 7 + pos // len(alpha)) % len(alpha)]
        recs.append(sc.rec_on(g, f"{name}.{pos}", path, ps, pe, strand=STRAND.get(name, "+"), extra=STALE.get(name, ())))
    gaf = os.path.join(scratch, "large.gaf")
    fw.write_text(gaf, "".join(r.line() + "\n" for r in recs))
    out = sc.run_sort(scratch, gfa_path, gaf)
    res.evaluations += 1
    res.count("large_file_records", nrec)
    keys = [sc.sort_key(g, r) for r in recs]
    want = [recs[i].qname for i in sorted(range(len(recs)), key=lambda i: (sc.order_tuple(keys[i]), i))]
    res.nt(fw.h64(["large", nrec]))
    case = {"graph": gname, "gfa": g.text(), "large": nrec}
    if out.kind != "ok":
        res.fail(f"C08/sort-failed:{out.sig()}", f"sort failed on a file of {nrec} records: {out.brief()}", case)
        return
    got = [l.split("\t")[0] for l in (out.stdout or "").split("\n") if l]
    if got != want:
        k = next((i for i, (a, b) in enumerate(zip(got, want)) if a != b), min(len(got), len(want)))
        res.fail("C08/wrong-order-large-file", f"file of {nrec} records: output differs from the stable sort by (BO,NO,start) from position {k}: {got[k:k+3]} vs {want[k:k+3]}", case)


def judge_file(res, scratch, gname, g, gfa_path, seq, alpha):
    recs = []
    for pos, ai in enumerate(seq):
        name, path, ps, pe = alpha[ai]
        recs.append(sc.rec_on(g, f"{name}.{pos}", path, ps, pe, strand=STRAND.get(name, "+"), extra=STALE.get(name, ())))
    text = "".join(r.line() + "\n" for r in recs)
    gaf = os.path.join(scratch, "in.gaf")
    fw.write_text(gaf, text)
    out = sc.run_sort(scratch, gfa_path, gaf)  # to stdout: no index is written, which keeps C10's territory out
    res.evaluations += 1
    keys = [sc.sort_key(g, r) for r in recs]
    want = sorted(range(len(recs)), key=lambda i: (sc.order_tuple(keys[i]), i))
    want_names = [recs[i].qname for i in want]
    if len(recs) >= 2 and (want != list(range(len(recs))) or len({sc.order_tuple(k) for k in keys}) < len(keys)):
        res.nt(fw.h64([gname, seq]))
    case = {"graph": gname, "gfa": open(gfa_path).read(), "records": [r.line() for r in recs]}  # the file as written (line order matters)
    if HISTORY.get("prev") and HISTORY["prev"]["gfa"] != case["gfa"]:
        case["preceded_by"] = HISTORY["prev"]
    verdict(res, out, gname, recs, keys, want_names, case)
    if HISTORY.get("prev") is None or HISTORY["prev"]["gfa"] == case["gfa"] or True:
        pass


HISTORY = {"prev": None}


def verdict(res, out, gname, recs, keys, want_names, case):
    if out.kind != "ok":
        res.fail(f"C08/sort-failed:{out.sig()}", f"[{gname}] sort failed on {[r.qname for r in recs]}: {out.brief()}", case)
        return
    got = [l.split("\t")[0] for l in (out.stdout or "").split("\n") if l]
    if got != want_names:
        kind = "wrong-order" if sorted(got) == sorted(want_names) else "records-lost"
        res.fail(
            f"C08/{kind}",
            f"[{gname}] input order {[r.qname for r in recs]} with keys {[(k['BO'], k['NO'], k['start']) for k in keys]}: output {got}, stable sort by (BO,NO,start) gives {want_names}",
            case,
        )


def run_shard(spec, tier, scratch):
    res = fw.ShardResult()
    if "large" in spec:
        large_file(res, scratch, tier, spec["large"])
        return res
    gs, missing = graphs(scratch)
    if missing:
        res.count("pipeline_graph_unavailable")
    n = 0
    maxn = bounds(tier)["max_records_per_file"]
    for gname, g, alpha in gs:
        gfa_path = os.path.join(scratch, gname + ".gfa")
        # the hand-tagged graph is written with its L lines first and its S lines in reverse order
        fw.write_text(gfa_path, g.text() if gname == "pipeline" else ("".join(l.line() + "\n" for l in g.links) + "".join(x.line() + "\n" for x in reversed(list(g.segs.values()))))[:-1])  # and no newline after its last line
        for k in range(1, (min(maxn, 3) if gname == "overlapping-BO-ranges" else maxn) + 1):
            for seq in itertools.product(range(len(alpha)), repeat=k):
                n += 1
                if n % spec["of"] != spec["shard"]:
                    continue
                judge_file(res, scratch, gname, g, gfa_path, list(seq), alpha)
        # what the next graph's sort calls are preceded by in this process
        name0, path0, ps0, pe0 = alpha[0]
        HISTORY["prev"] = {"gfa": open(gfa_path).read(), "records": [sc.rec_on(g, f"{a[0]}.0", a[1], a[2], a[3], strand=STRAND.get(a[0], "+"), extra=STALE.get(a[0], ())).line() for a in alpha]}
        if spec["shard"] == 0:
            res.sample({"graph": gname, "alphabet": [{"name": a[0], "path": a[1], "start": a[2], "end": a[3], "key": sc.sort_key(g, sc.rec_on(g, a[0], a[1], a[2], a[3]))} for a in alpha]})
    return res


def replay(case, scratch):
    res = fw.ShardResult()
    if "large" in case:
        large_file(res, scratch, "quick", case["large"])
        return res.failures
    if case.get("preceded_by"):
        # a sort call on the other graph first: the failure needs that history
        p = case["preceded_by"]
        fw.write_text(os.path.join(scratch, "p.gfa"), p["gfa"])
        fw.write_text(os.path.join(scratch, "p.gaf"), "".join(l + "\n" for l in p["records"]))
        sc.run_sort(scratch, os.path.join(scratch, "p.gfa"), os.path.join(scratch, "p.gaf"))
    g = rgfa.Graph.parse(case["gfa"])
    gfa_path = os.path.join(scratch, "g.gfa")
    fw.write_text(gfa_path, case["gfa"])
    recs = [rgfa.Rec.parse(l) for l in case["records"]]
    gaf = os.path.join(scratch, "in.gaf")
    fw.write_text(gaf, "".join(r.line() + "\n" for r in recs))
    out = sc.run_sort(scratch, gfa_path, gaf)
    keys = [sc.sort_key(g, r) for r in recs]
    want = [recs[i].qname for i in sorted(range(len(recs)), key=lambda i: (sc.order_tuple(keys[i]), i))]
    verdict(res, out, case.get("graph", "?"), recs, keys, want, case)
    return res.failures
