"""C16 - GAF optional fields survive parsing and re-serialisation verbatim."""

import os
import itertools

from mc import framework as fw
from mc import rgfa
from mc import gen
from mc import viewidx as vi
from mc import realign_common as rc

ID = "C16"
LEVEL = "exploration"
TECHNIQUE = "bounded-exhaustive enumeration of optional-field sequences (by SAM tag type and punctuation class) through every re-serialising entry point, byte-level comparison"
RULE = (
    "tag alphabet of 33 well-formed fields by type (i: 0, -5, +3; f: 0.5, -0.5, .5, 1e-05, 3E+2; Z: alnum, one of _ # . - : * / % each, the remaining printable punctuation, interior "
    "space, empty; A: P, *; B: i,1,-2 and f,0.5; H: 1AE3; two tag names with two types) + a repeated tag + ds:Z; every sequence of <=N fields (N=2 quick, 3 thorough) with the "
    "CIGAR field absent or at every position; read name with and without a space; through view -n, view -f stable (both also on a bgzip-compressed GAF), view -f unstable, realign "
    "(<=60 kb) and realign pass-through (>60 kb). evaluations = records re-emitted and judged; non-trivial = records with >=1 optional field."
)
ASSUMPTIONS = [
    "lines are ASCII, tab separated, newline terminated and do not end in whitespace",
    "ds:Z may be dropped (documented) or kept verbatim; realign may always write a cg field; the converters may rewrite an existing cg",
]
LEVEL_TEXT = (
    "Every combination of tag types and punctuation classes up to the bound is sent through each code path that parses and re-emits "
    "a record and compared byte for byte; the only existing test checks that parsed keys occur somewhere in two alphanumeric records."
)
LEVEL_NOTE = "Needs no model beyond the TAG:TYPE:VALUE grammar; the comparison is input bytes against output bytes."
DESIGN_REF = "DESIGN.md §4 C16"
EXHAUSTIVE = True

ALPHA = [
    "xa:i:0", "xb:i:-5", "xc:i:+3",
    "fa:f:0.5", "fb:f:-0.5", "fc:f:.5", "fd:f:1e-05", "fe:f:3E+2",
    "za:Z:abc1", "zb:Z:a_b", "zc:Z:a#b", "zd:Z:a.b", "ze:Z:a-b", "zf:Z:a:b", "zg:Z:a*b", "zh:Z:a/b", "zi:Z:a b", "zj:Z:",
    "aa:A:P", "ab:A:*",
    "ba:B:i,1,-2", "bb:B:f,0.5",
    "ha:H:1AE3",
    "tp:A:P",
    "oc:Z:x4=4=y",  # contains the text of the input CIGAR used in realign mode
    "zq:Z:ends ",  # a value that ends in a blank (never placed in the last column: lines are assumed not to end in white space)
    "ds:i:-42", "cg:i:7",  # the tag names the parser treats specially (ds:Z is dropped, cg:Z is the CIGAR), with another type
    "xa:f:1.5", "za:i:7",  # tag names that also occur with another type (xa:i, za:Z) in other records and in the same record
    "zk:Z:100%", "zm:Z:%s %d%%", "zn:Z:!\"$&'()+,;<=>?@[\\]^`{|}~",  # the remaining printable punctuation, '%' on its own
]
EXTRA = ["za:Z:again", "ds:Z:*2+a-t"]  # a repeated tag (za occurs in ALPHA), the ds tag
MODES = ["view-n", "view-f-stable", "view-f-unstable", "realign", "realign-passthrough", "view-n-bgzf", "view-f-stable-bgzf"]  # -bgzf: the GAF is bgzip-compressed


def bounds(tier):
    return {"max_fields": 2 if tier == "quick" else 3, "alphabet": len(ALPHA) + len(EXTRA)}


def tag_lists(maxn):
    fields = ALPHA + EXTRA
    yield []
    for k in range(1, maxn + 1):
        for combo in itertools.product(fields, repeat=k):
            # a record repeating the very same field is pointless; repeated *tags* with different values are kept
            if len(set(combo)) == len(combo):
                yield list(combo)


def with_cg_positions(tl, cg):
    yield list(tl)  # no CIGAR field at all
    for pos in range(len(tl) + 1):
        yield tl[:pos] + [cg] + tl[pos:]


def plan(tier, seed):
    n = 8 if tier == "quick" else 32
    specs = []
    for m in MODES:
        for i in range(n):
            specs.append({"mode": m, "shard": i, "of": n})
    return specs


def judge_record(rin, rout, mode, converted):
    """-> list of (kind, text)"""
    bad = []
    a, b = rin.cols(), rout.cols()
    name = a[0].split(" ")[0]
    if b[0] != name:
        bad.append(("read-name", f"read name {a[0]!r} came out as {b[0]!r}"))
    same_cols = (1, 2, 3, 9, 10, 11) if converted or mode == "realign" else tuple(range(1, 12))
    if mode == "realign":
        same_cols = (1, 2, 3, 4, 5, 6, 7, 8, 11)
    for i in same_cols:
        if a[i] != b[i]:
            bad.append(("column", f"column {i + 1}: {a[i]!r} -> {b[i]!r}"))
    fin = [o for o in rin.opt if o[:5] not in ("cg:Z:", "ds:Z:")]
    fout = [o for o in rout.opt if o[:5] not in ("cg:Z:", "ds:Z:")]
    if fin != fout:
        bad.append((classify(fin, fout), f"optional fields {rin.opt} came out as {rout.opt}"))
    had_cg = any(o.startswith("cg:Z:") for o in rin.opt)
    out_cg = [o for o in rout.opt if o.startswith("cg:Z:")]
    if fin == fout and had_cg and len(out_cg) == 1:
        # the CIGAR may be rewritten, but it stays one of the fields "in the original order"
        kin = [o[:5] for o in rin.opt if o[:5] != "ds:Z:"]
        kout = [o[:5] for o in rout.opt if o[:5] != "ds:Z:"]
        if kin != kout:
            bad.append(("cg-moved", f"the CIGAR field changed its position among the optional fields: {rin.opt} -> {rout.opt}"))
    if out_cg and not had_cg and not mode.startswith("realign"):
        bad.append(("cg-invented", f"the input has no CIGAR field, the output has {out_cg}"))
    if mode == "realign-passthrough" and out_cg and not had_cg:
        bad.append(("cg-invented", f"pass-through record without CIGAR came out with {out_cg}"))
    if had_cg and not out_cg:
        bad.append(("cg-lost", "the CIGAR field of the input is missing from the output"))
    ds_in = [o for o in rin.opt if o.startswith("ds:Z:")]
    ds_out = [o for o in rout.opt if o.startswith("ds:Z:")]
    if ds_out and ds_out != ds_in:
        bad.append(("ds-changed", f"ds field {ds_in} came out as {ds_out}"))
    return bad


def classify(fin, fout):
    tags_in = [f[:2] for f in fin]
    repeated = len(set(tags_in)) < len(tags_in)
    if repeated:
        # which tag repeats is part of the signature: a different repeated tag failing is a different finding
        dup = sorted({t for t in tags_in if tags_in.count(t) > 1})
        if [f for f in fout] == _collapse_repeats(fin):
            return "repeated-tag-collapsed"
        return "repeated-tag-" + "+".join(dup)
    if len(fout) < len(fin):
        if all(f in fin for f in fout):
            lost = [f for f in fin if f not in fout]
            return "field-dropped:" + "+".join(sorted({f[3] for f in lost}))
    if len(fout) == len(fin) and [f[:5] for f in fin] == [f[:5] for f in fout]:
        changed = [f for f, g in zip(fin, fout) if f != g]
        return "value-changed:" + "+".join(sorted({f[3] for f in changed}))
    if sorted(fin) == sorted(fout):
        return "order-changed"
    extra = [f for f in fout if f not in fin]
    if extra and len(fout) > len(fin):
        return "field-invented"
    return "fields-differ"


def _collapse_repeats(fin):
    """what a parser keeping only the first occurrence of a tag (in first-occurrence position) would emit"""
    seen = set()
    out = []
    for f in fin:
        if f[:5] in seen:
            continue
        seen.add(f[:5])
        out.append(f)
    return out


# ----------------------------------------------------------------------------------------------
# inputs per mode

VIEW_LAYOUT = ((2, 1), "one", 1)


def build_records(mode, tier, spec):
    maxn = bounds(tier)["max_fields"]
    recs = []
    n = 0
    for tl in tag_lists(maxn):
        for opt in with_cg_positions(tl, "cg:Z:CG"):
            n += 1
            if n % spec["of"] != spec["shard"]:
                continue
            if opt and opt[-1].endswith(" "):
                continue
            recs.append((n, opt))
    return recs


def make_view_inputs(scratch, mode, entries):
    L = gen.Layout(*VIEW_LAYOUT)
    g = vi.graph_for(L, "complete")
    gfa = os.path.join(scratch, "g.gfa")
    fw.write_text(gfa, g.text())
    recs = []
    for n, opt in entries:
        steps = [(">", "s1"), ("<", "s2")] if n % 2 else [("<", "s2"), ("<", "s1")]
        total = sum(g.segs[x].LN for o, x in steps)
        s, e = 1, total
        cig, matches = gen.cigar_for(e - s)
        qn = f"r{n}" + (" tail text" if n % 3 == 0 else "")
        o2 = [("cg:Z:" + cig) if x == "cg:Z:CG" else x for x in opt]
        r = rgfa.Rec(qn, (e - s) + 2, 1, 1 + (e - s), "+", rgfa.steps_str(steps), total, s, e, matches, e - s, 60, o2)
        if mode == "view-f-unstable":
            r = rgfa.to_stable_model(g, r)
        recs.append(r)
    return g, gfa, recs


def run_view_mode(res, scratch, mode, entries):
    from gaftools.cli import view

    full_mode = mode
    mode = mode.replace("-bgzf", "")
    g, gfa, recs = make_view_inputs(scratch, mode, entries)
    gaf = os.path.join(scratch, "in.gaf")
    text = "".join(r.line() + "\n" for r in recs)
    if full_mode.endswith("-bgzf"):
        gaf += ".gz"
        vi.write_gaf(gaf, text, ("bgzip64k",))
    else:
        fw.write_text(gaf, text[:-1] if len(text) % 2 else text)  # about every other plain input file ends without a newline
    outp = os.path.join(scratch, "out.gaf")
    if mode == "view-n":
        o, ind = vi.run_index(gaf, gfa)
        if ind is None:
            res.fail(f"C16/{full_mode}:index-failed:{o.sig()}", f"index failed: {o.brief()}", {"mode": full_mode, "records": [r.line() for r in recs[:50]]})
            return recs, None
        out = fw.guarded(view.run, gaf_path=gaf, output=outp, nodes=["s1", "s2"])
    else:
        out = fw.guarded(view.run, gaf_path=gaf, gfa=gfa, output=outp, format="stable" if mode == "view-f-stable" else "unstable")
    if out.kind != "ok":
        res.fail(f"C16/{full_mode}:failed:{out.sig()}", f"{full_mode} failed on well-formed records: {out.brief()}", {"mode": full_mode, "records": [r.line() for r in recs[:200]]})
        return recs, None
    lines = open(outp).read().split("\n")
    return recs, [l for l in lines if l != ""]


def make_realign_inputs(scratch, mode, entries):
    d = os.path.join(scratch, "ra")
    os.makedirs(d, exist_ok=True)
    fw.write_text(os.path.join(d, "g.gfa"), rc.GFA_TEXT)
    fa = []
    recs = []
    if mode == "realign-passthrough":
        big = gen._seq(60_010, 99)
        fa.append(f">big\n{big}\n")
    for n, opt in entries:
        # realign mode: a valid but not canonical input CIGAR (two adjacent match runs), which realign rewrites to 8=
        o2 = [("cg:Z:4=4=" if mode == "realign" else "cg:Z:60001=") if x == "cg:Z:CG" else x for x in opt]
        if mode == "realign":
            i = n % 6
            seq = rc.PATHSEQ[i : i + 8]
            fa.append(f">r{n}\n{seq}\n")
            qn = f"r{n}" + (" tail text" if n % 3 == 0 else "")
            recs.append(rgfa.Rec(qn, 8, 0, 8, "+", ">s1>s2", 18, i, i + 8, 8, 8, 60, o2))
        else:
            # one long read shared by all pass-through records; the read name must be 'big' for the FASTA lookup
            recs.append(rgfa.Rec("big" + (f" r{n}" if True else ""), 60_010, 0, 60_001, "+", ">s1>s2", 18, 0, 18, 18, 60_001, n % 61, o2))
    fw.write_text(os.path.join(d, "r.fa"), "".join(fa))
    return d, recs


def run_realign_mode(res, scratch, mode, entries):
    from gaftools.cli import realign as R

    d, recs = make_realign_inputs(scratch, mode, entries)
    gaf = os.path.join(d, "in.gaf")
    text = "".join(r.line() + "\n" for r in recs)
    fw.write_text(gaf, text[:-1] if len(text) % 2 else text)
    outp = os.path.join(d, "out.gaf")
    out = fw.guarded(R.run_realign, gaf=gaf, graph=os.path.join(d, "g.gfa"), fasta=os.path.join(d, "r.fa"), output=outp, cores=1, _trigger_s=600)
    if out.kind != "ok":
        res.fail(f"C16/{mode}:failed:{out.sig()}", f"realign failed on well-formed records: {out.brief()}", {"mode": mode, "records": [r.line() for r in recs[:200]]})
        return recs, None
    # run_realign leaves its output handle to the garbage collector
    import gc

    gc.collect()
    lines = open(outp).read().split("\n")
    return recs, [l for l in lines if l != ""]


def judge_mode(res, scratch, mode, entries):
    if mode.startswith("view"):
        recs, lines = run_view_mode(res, scratch, mode, entries)
    else:
        recs, lines = run_realign_mode(res, scratch, mode, entries)
    if lines is None:
        return
    if len(lines) != len(recs):
        res.fail(f"C16/{mode}:record-count", f"{len(recs)} records in, {len(lines)} out", {"mode": mode, "records": [r.line() for r in recs[:300]]})
        return
    converted = mode.startswith("view-f")
    for rin, line in zip(recs, lines):
        res.evaluations += 1
        try:
            rout = rgfa.Rec.parse(line)
        except Exception as e:
            res.fail(f"C16/{mode}:unparsable", f"{line!r}: {e}", {"mode": mode, "records": [rin.line()]})
            continue
        if rin.opt:
            res.nt(fw.h64([mode, rin.opt, rin.qname.count(" ")]))
        for kind, text in judge_record(rin, rout, mode, converted):
            res.fail(f"C16/{kind}", f"[{mode}] {text}", {"mode": mode, "records": [rin.line()]})


LONG_FIELD = "zl:Z:" + "ACGT" * 17_500  # 70 kB: the record is longer than a 64 KiB read block


def run_shard(spec, tier, scratch):
    res = fw.ShardResult().begin(spec, tier)
    res.next_call()
    entries = build_records(spec["mode"], tier, spec)
    if spec["shard"] == 0 and spec["mode"].startswith("view") and tier == "quick":
        # one call that re-emits several thousand records (every record of this mode in one file)
        entries = build_records(spec["mode"], tier, {"shard": 0, "of": 1})
        res.count("calls_with_thousands_of_records")
    if spec["shard"] == 0 and spec["mode"].startswith("view"):
        # records longer than 64 KiB, with fields before and after the long one
        base = max(n for n, o in entries) + 1 if entries else 1
        entries = entries + [(base * 1000 + 1, ["xa:i:0", LONG_FIELD, "cg:Z:CG", "zb:Z:a_b"]), (base * 1000 + 2, ["cg:Z:CG", LONG_FIELD, "fd:f:1e-05"])]
    judge_mode(res, scratch, spec["mode"], entries)
    if spec["shard"] == 0 and entries:
        res.sample({"mode": spec["mode"], "optional_fields_of_some_records": [e[1] for e in entries[5:40:7]]})
    return res


def replay(case, scratch):
    res = fw.ShardResult()
    mode = case["mode"]
    recs = [rgfa.Rec.parse(l) for l in case["records"]]
    # rebuild (ordinal, opt) entries; the record builders derive everything else from the ordinal
    entries = []
    for r in recs:
        digits = "".join(ch for ch in (r.qname.split(" ")[-1] if mode == "realign-passthrough" else r.qname.split(" ")[0]) if ch.isdigit())
        n = int(digits) if digits else 1
        opt = ["cg:Z:CG" if o.startswith("cg:Z:") else o for o in r.opt]
        entries.append((n, opt))
    judge_mode(res, scratch, mode, entries)
    return res.failures
