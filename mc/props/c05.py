"""C05 - view --region returns exactly the records of the nodes under the region."""

import os

from mc import framework as fw
from mc import rgfa
from mc import gen
from mc import conv
from mc import viewidx as vi
from mc.props import c04

ID = "C05"
LEVEL = "exploration"
TECHNIQUE = "bounded-exhaustive enumeration of (indexed GAF, region list) queries through view.run against the model's node selection; termination decided by a line-event budget"
RULE = (
    "indexed GAFs as in C04 (layouts x link structures x stable/unstable x record sets with and without unaligned nodes x plain/BGZF); "
    "queries: every region CONTIG:a-b with 0<=a<=b<contig end for every contig of the layout (inside one node, spanning several, on "
    "node boundaries, over unaligned nodes, in gaps of a haplotype contig) and every ordered pair from a 6-region subset, x {no --format, "
    "--format}. evaluations = view runs; non-trivial = regions spanning >=2 nodes, touching an unaligned node, or matching nothing."
)
ASSUMPTIONS = c04.ASSUMPTIONS + [
    "a region CONTIG:a-b is the closed interval [a,b]: it selects the nodes with SO <= b and a < SO+LN (the reading of the existing code's `q_e < end` test)",
    "each query runs under a wall-clock trigger of 1 s and is then decided by a budget of 3e5 line events inside gaftools (a terminating query on these inputs needs < 1e4)",
]
LEVEL_TEXT = (
    "Every region over every contig of every layout inside the bounds is queried and compared with what --node returns for the nodes "
    "under it; multi-node regions, regions over unaligned nodes and boundary positions - never executed by the suite - are all in the "
    "enumerated space, and non-termination is decided deterministically."
)
LEVEL_NOTE = c04.LEVEL_NOTE
DESIGN_REF = "DESIGN.md §4 C05"
EXHAUSTIVE = True

bounds = c04.bounds


def plan(tier, seed):
    return [{"long_contig": True}, {"big_nodes": True}, {"prefix_contigs": True}] + [x for x in c04.plan(tier, seed) if "layout" in x]


def contig_end(g, c):
    rank, segs = g.contigs()[c]
    return max(s.SO + s.LN for s in segs)


def regions_for(g):
    out = []
    for c in g.contigs():
        end = contig_end(g, c)
        for a in range(end):
            for b in range(a, end):
                out.append((c, a, b))
    return out


def nodes_under(g, region):
    c, a, b = region
    return [s.id for s in g.segs.values() if s.SN == c and s.SO <= b and a < s.SO + s.LN]


def rstr(r):
    return f"{r[0]}:{r[1]}-{r[2]}"


def region_queries(res, P):
    g = P.g
    regs = regions_for(g)
    single = [[r] for r in regs]
    # a 6-region subset for the pairs: spread over all regions
    step = max(1, len(regs) // 6)
    sub = regs[::step][:6]
    pairs = [[a, b] for a in sub for b in sub]
    for rl in single + pairs:
        if res.stats.get("failures:C05/does-not-terminate", 0) >= 12:
            # every such query costs a second of wall clock; the violation is already established
            res.count("files_abandoned_after_repeated_nontermination")
            break
        nodes = sorted({n for r in rl for n in nodes_under(g, r)})
        want = sorted({i for n in nodes for i in P.touch[n]})
        for fmt in (None, P.fmt) if len(rl) == 1 else (None,):
            out, lines = c04.run_view(P, regions=[rstr(r) for r in rl], fmt=fmt)
            res.evaluations += 1
            multi = any(len(nodes_under(g, r)) >= 2 for r in rl)
            unal = any(not P.touch[n] for n in nodes) or any(not nodes_under(g, r) for r in rl)
            if multi or unal or not want:
                res.nt(fw.h64([P.L.name, P.lm, P.stable, P.setname, P.variant, rl, fmt]))
            if multi:
                res.count("regions_spanning_several_nodes")
            if unal:
                res.count("regions_over_unaligned_nodes_or_gaps")
            if not want:
                res.count("regions_matching_nothing")
            c04.judge_selection(
                res, P, "C05",
                f"[{P.L.name}, {P.lm}, {'stable' if P.stable else 'unstable'}, {P.setname}, {P.variant}] view -r {' -r '.join(rstr(r) for r in rl)} (nodes under the region: {nodes})",
                {"regions": [list(r) for r in rl]}, fmt, out, lines, want,
            )


def long_contig(res, scratch):
    """a contig tiled by 30 unit-length segments, every one aligned: regions covering many nodes"""
    L = gen.Layout((1,) * 30, "none", 1)
    for lm in ("complete", "realistic"):
        g = L.graph([(f"s{i}", "+", f"s{i + 1}", "+", "0M") for i in range(1, 30)], sn_last=(lm == "realistic"))
        urecs = [gen.walk_record(i, [(">", f"s{i + 1}")], 0, 1, 1) for i in range(30)]
        for stable in (False, True):
            recs = [rgfa.to_stable_model(g, r) for r in urecs] if stable else urecs
            P = c04.Prepared(scratch, g, L, lm, stable, "one-record-per-node", recs, "plain", "long")
            if P.ind is None:
                continue
            region_queries(res, P)
            res.count("long_contig_files")


BIG_SCALE = 12_000


def probe_points(g, c):
    """start / end candidates on a contig of long nodes: node boundaries and their neighbours, quarter points of every node,
    powers of two from 4 KiB up and their neighbours"""
    end = contig_end(g, c)
    pts = {0, 1, end - 1}
    for s_ in g.segs.values():
        if s_.SN != c:
            continue
        a, b = s_.SO, s_.SO + s_.LN
        pts.update({a - 1, a, a + 1, b - 1, a + (b - a) // 4, a + (b - a) // 2, a + 3 * (b - a) // 4})
    k = 4096
    while k < end:
        pts.update({k - 1, k, k + 1})
        k *= 2
    return sorted(p for p in pts if 0 <= p < end)


def big_nodes(res, scratch):
    """nodes of 12 kb and 36 kb (a region can lie deep inside one node, far from both of its ends), one short alignment per node"""
    global regions_for
    L = gen.Layout((1, 3, 1), "one", BIG_SCALE)
    orig = regions_for

    def probes(g):
        out = []
        for c in g.contigs():
            pts = probe_points(g, c)
            out += [(c, a, b) for a in pts for b in pts if a <= b]
        return out

    regions_for = probes
    try:
        for lm in ("realistic",):
            g = vi.graph_for(L, lm)
            urecs = []
            for i, n in enumerate(g.segs):
                ln = g.segs[n].LN
                urecs.append(gen.walk_record(i, [("><"[i % 2], n)], ln // 3, ln // 3 + 40, ln))
            for stable in (False, True):
                recs = [rgfa.to_stable_model(g, r) for r in urecs] if stable else urecs
                P = c04.Prepared(scratch, g, L, lm, stable, "one-record-per-node", recs, "plain", "big")
                if P.ind is None:
                    res.fail("C05/index-failed", f"index failed on the graph of long nodes: {P.index_out.brief()}", P.case({"regions": []}, None))
                    continue
                region_queries(res, P)
                res.count("files_with_nodes_of_36kb")
    finally:
        regions_for = orig


def prefix_contigs(res, scratch):
    """two reference contigs, the name of one being a proper prefix of the other's (chr1 / chr10), with nodes at the same
    coordinates; every region on either, every pair of regions on a six-region subset"""
    for second in ("chr10", "chr1_KI270706v1_random", "HG002#1#chr1"):
        L = gen.Layout((2, 1), "one", 1, second_ref=(1, 2), second_name=second)
        g = L.graph([("s1", "+", "s2", "+", "0M"), ("s4", "+", "s5", "+", "0M")])
        # s2 (chr1) stays unaligned; with the PanSN name no node of chr1 has an alignment at all
        skip = {"s2"} if "#" not in second else {n for n, sg in g.segs.items() if sg.SN == "chr1"}
        urecs = [gen.walk_record(i, [(">", n)], 0, g.segs[n].LN, g.segs[n].LN) for i, n in enumerate(g.segs) if n not in skip]
        for stable in (False, True):
            recs = [rgfa.to_stable_model(g, r) for r in urecs] if stable else urecs
            P = c04.Prepared(scratch, g, L, "realistic", stable, "one-record-per-node", recs, "plain", "prefix")
            if P.ind is None:
                res.fail("C05/index-failed", f"index failed: {P.index_out.brief()}", P.case({"regions": []}, None))
                continue
            region_queries(res, P)
            res.count("files_with_prefix_contig_names")


def cli_regions(res, scratch):
    """the real command line (`python -m gaftools view ... -r ...`) on regions of every contig of a layout, haplotype contig
    names with '#' and '-' included: same lines and same success / failure as view.run"""
    import subprocess
    import sys

    L = gen.Layout((2, 1), "separated2+second", 1)
    g = vi.graph_for(L, "realistic")
    recs = [r for r, st in vi.walk_records(g, L, 1)]
    P = c04.Prepared(scratch, g, L, "realistic", False, "all", recs, "plain", "cli")
    if P.ind is None:
        res.fail("C05/index-failed", f"index failed: {P.index_out.brief()}", P.case({"regions": []}, None))
        return
    env = dict(os.environ)
    env["PYTHONPATH"] = fw.REPO + os.pathsep + env.get("PYTHONPATH", "")
    for c in g.contigs():
        end = contig_end(g, c)
        for rl in ([(c, 0, end - 1)], [(c, 0, 0), ("chr1", 0, 1)]):
            args = [x for r in rl for x in ("-r", rstr(r))]
            out, lines = c04.run_view(P, regions=[rstr(r) for r in rl])
            p = subprocess.run([sys.executable, "-m", "gaftools", "view", P.gaf_path] + args, stdout=subprocess.PIPE, stderr=subprocess.PIPE, env=env, cwd=scratch)
            cl = p.stdout.decode().split("\n")
            if cl and cl[-1] == "":
                cl = cl[:-1]
            res.evaluations += 1
            res.nt(fw.h64(["cli", rl]))
            res.count("command_line_runs")
            if (p.returncode == 0) != (out.kind == "ok") or (out.kind == "ok" and cl != lines):
                res.fail("C05/cli-differs", f"`gaftools view {' '.join(args)}` exits {p.returncode} with {len(cl)} lines ({p.stderr.decode().strip()[-160:]!r}); view.run: {out.brief()}, {len(lines)} lines",
                         P.case({"regions": [list(r) for r in rl], "cli": True}, None))


def run_shard(spec, tier, scratch):
    res = fw.ShardResult().begin(spec, tier)
    b = bounds(tier)
    if spec.get("prefix_contigs"):
        prefix_contigs(res, scratch)
        cli_regions(res, scratch)
        return res
    if spec.get("long_contig"):
        long_contig(res, scratch)
        return res
    if spec.get("big_nodes"):
        big_nodes(res, scratch)
        return res
    L = conv.layout_from(spec["layout"])
    for P in c04.prepared_files(scratch, L, spec["linkmode"], b["max_steps"], res, "C05"):
        if res.stats.get("files_abandoned_after_repeated_nontermination", 0):
            break
        region_queries(res, P)
        if P.setname == "partial" and P.stable and P.variant == "plain":
            res.sample({"layout": L.name, "links": P.lm, "n_records": len(P.recs), "nodes": {n: [s.SN, s.SO, s.SO + s.LN] for n, s in P.g.segs.items()},
                        "unaligned_nodes": [n for n in P.g.segs if not P.touch[n]], "example_queries": [rstr(r) for r in regions_for(P.g)[:5]]})
    return res


def replay(case, scratch):
    res = fw.ShardResult()
    L = conv.layout_from(case["layout"])
    if len(L.ref_lens) == 30 or L.scale == BIG_SCALE or case["layout"].get("second_name"):
        return []  # the long-contig / long-node files are re-created through their call sequence
    g = vi.graph_for(L, case["linkmode"])
    recs = [rgfa.Rec.parse(l) for l in case["records"]]
    P = c04.Prepared(scratch, g, L, case["linkmode"], case["stable"], "replay", recs, case["variant"], "rp")
    if P.ind is None:
        res.fail("C05/index-failed", f"index failed: {P.index_out.brief()}", case)
        return res.failures
    rl = [tuple(r) for r in case["query"]["regions"]]
    nodes = sorted({n for r in rl for n in nodes_under(g, r)})
    want = sorted({i for n in nodes for i in P.touch[n]})
    out, lines = c04.run_view(P, regions=[rstr(r) for r in rl], fmt=case["format"])
    c04.judge_selection(res, P, "C05", f"view -r {[rstr(r) for r in rl]}", case["query"], case["format"], out, lines, want)
    return res.failures


def finalize(results, tier):
    n = sum(r.get("stats", {}).get("files_abandoned_after_repeated_nontermination", 0) for r in results)
    return {"coverage": {"exhaustive": n == 0, "shards_cut_short_after_repeated_nontermination": n}}
