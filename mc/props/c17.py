"""C17 - results do not depend on input compression."""

import os
import gzip
import pickle

from mc import framework as fw
from mc import rgfa
from mc import gen
from mc import conv
from mc import viewidx as vi
from mc import sortcommon as sc
from mc import realign_common as rc
from mc import ordercommon as oc
from mc.props import c04, c09

ID = "C17"
LEVEL = "exploration"
TECHNIQUE = "differential bounded-exhaustive enumeration: every subcommand on a plain input versus the same bytes under every enumerated BGZF block layout / gzip-compressed graph"
RULE = (
    "GAF side: for view (pass-through, -n for every node, -f), index, stat (--cigar), phase, sort (+ .gsi index) and realign, a 5-record file "
    "as plain text versus every placement of <=2 BGZF block boundaries around line boundaries and mid-line (with/without an empty block and "
    "the EOF block), plus >64 KiB files cut at 0xff00 and written by pysam; graph side: view -f, index (stable GAF), sort, realign, find_path "
    "and order_gfa with g.gfa versus g.gfa.gz. evaluations = subcommand runs on a compressed input compared with the plain run; "
    "non-trivial = runs on files with >=2 BGZF blocks or a compressed graph."
)
ASSUMPTIONS = [
    "index contents are compared after resolving each offset to the record it addresses in its own file (node -> set of records)",
    "order_gfa's per-chromosome CSV file *name* differs for g.gfa.gz ([:-4] vs split('.')[0]); contents are compared, names are not part of the oracle",
    "the plain-text run is the reference; its own correctness is the business of the other checks",
]
LEVEL_TEXT = (
    "Block boundaries are placed by the harness at every position that matters to a line reader, so virtual offsets that cross blocks, "
    "empty blocks and a missing EOF block - never produced by the one-block fixtures of the suite - are all compared against the plain-"
    "text behaviour, for every subcommand that reads a GAF; compressed graphs are tried for every subcommand that reads one."
)
LEVEL_NOTE = "Differential oracle against the implementation's own plain-text behaviour; trusts the harness BGZF writer (read back with pysam on every file in C03)."
DESIGN_REF = "DESIGN.md §4 C17"
EXHAUSTIVE = True
NSHARD = {"quick": 16, "thorough": 48}


def bounds(tier):
    return {"records": 5, "bgzf_max_cuts": 3 if tier == "thorough" else 2, "layout_stride": 1}


def plan(tier, seed):
    n = NSHARD[tier]
    return [{"part": "gaf", "shard": i, "of": n} for i in range(n)] + [{"part": "graph"}, {"part": "big"}, {"part": "tail"}, {"part": "side"}]


# ----------------------------------------------------------------------------------------------
# datasets


def view_dataset():
    L = gen.Layout((2, 1), "separated2", 1)
    g = vi.graph_for(L, "realistic")
    allr = [r for r, st in vi.walk_records(g, L, 2)]
    step = max(1, len(allr) // 5)
    urecs = allr[::step][:5]
    # give the records a tp tag mix and a cigar so that stat has something to count
    for i, r in enumerate(urecs):
        r.opt = [f"tp:A:{'PSI'[i % 3]}", "NM:i:0"] + [o for o in r.opt if o.startswith("cg:")]
    # one read name carries its FASTQ description (GraphAligner writes names like that)
    urecs[1] = rgfa.Rec(urecs[1].qname + " desc=1 len=4", *urecs[1].cols()[1:], opt=list(urecs[1].opt))
    srecs = [rgfa.to_stable_model(g, r) for r in urecs]
    return g, urecs, srecs


def sort_dataset():
    g, chains = c09.build(2)
    recs = c09.records(g, chains, 2)
    step = max(1, len(recs) // 5)
    return g, recs[::step][:4] + [recs[-1]]


TSV = "r0\tH1\t100\tchr1\nr3\tH2\t200\tchr1\nr5\tnone\tnone\tchr1\n"


class Outputs(dict):
    pass


def run_gaf_side(scratch, variant, tag):
    """every GAF-reading subcommand on one compression variant of the fixed datasets -> dict name -> comparable result"""
    from gaftools.cli import view, stat, phase
    from gaftools.cli import realign as R
    import gc

    out = Outputs()
    d = os.path.join(scratch, tag)
    os.makedirs(d, exist_ok=True)
    # compressed variants are written to the SAME path as the plain file before them (gaftools sniffs the magic bytes,
    # the name carries no information): a decision remembered per path from an earlier call would be stale
    ext = ""
    g, urecs, srecs = view_dataset()
    gfa = os.path.join(d, "g.gfa")
    fw.write_text(gfa, g.text())
    for kind, recs in (("unstable", urecs), ("stable", srecs)):
        text = "".join(r.line() + "\n" for r in recs)
        gaf = os.path.join(d, f"{kind}.gaf{ext}")
        vi.write_gaf(gaf, text, variant)
        o, ind = vi.run_index(gaf, gfa)
        if ind is None:
            out[f"index[{kind}]"] = ("failed", o.sig())
        else:
            res = {}
            offs = sorted({x for k, v in ind.items() if k != "ref_contig" for x in v})
            rs = vi.resolve_offsets(gaf, offs)
            for k, v in ind.items():
                if k == "ref_contig":
                    continue
                res[str(k)] = sorted({rs[x].qname if not isinstance(rs[x], str) else f"unresolvable offset" for x in v})
            out[f"index[{kind}]"] = ("ok", sorted(res.items()))
        P = type("P", (), {})()
        P.gaf_path, P.gfa_path, P.scratch = gaf, gfa, d
        o, lines = c04.run_view(P)
        vo = os.path.join(d, "view.out")
        # the bytes written, not only the lines: an unterminated last line glues records together when outputs are concatenated
        out[f"view[{kind}]"] = (o.kind, lines, open(vo).read().endswith("\n") if lines and os.path.exists(vo) else None)
        fmt = "stable" if kind == "unstable" else "unstable"
        o, lines = c04.run_view(P, fmt=fmt)
        out[f"view -f[{kind}]"] = (o.kind, lines)
        if ind is not None:
            for n in g.segs:
                o, lines = c04.run_view(P, nodes=[n])
                out[f"view -n {n}[{kind}]"] = (o.kind if o.kind != "cle" else "nothing-found", lines)
            o, lines = c04.run_view(P, regions=["chr1:0-1"], fmt=fmt)
            out[f"view -r -f[{kind}]"] = (o.kind if o.kind != "cle" else "nothing-found", lines)
        rep = os.path.join(d, "stat.txt")
        o = fw.guarded(stat.run_stat, gaf_path=gaf, cigar_stat=True, output=rep, _capture_stdout=True)
        out[f"stat[{kind}]"] = (o.kind, open(rep).read() if o.kind == "ok" else o.sig())
        ph = os.path.join(d, "phase.gaf")
        tsv = os.path.join(d, "h.tsv")
        fw.write_text(tsv, TSV)
        o = fw.guarded(phase.run, gaf_file=gaf, tsv_file=tsv, output=ph)
        out[f"phase[{kind}]"] = (o.kind, open(ph).read() if o.kind == "ok" else o.sig())
    # sort
    sg, srt = sort_dataset()
    sgfa = os.path.join(d, "sg.gfa")
    fw.write_text(sgfa, sg.text())
    sgaf = os.path.join(d, f"s.gaf{ext}")
    vi.write_gaf(sgaf, "".join(r.line() + "\n" for r in srt), variant)
    for bgzip in (False, True):
        outp = os.path.join(d, "sorted.gaf" + (".gz" if bgzip else ""))
        o = sc.run_sort(d, sgfa, sgaf, outgaf=outp, bgzip=bgzip)
        if o.kind != "ok":
            out[f"sort[bgzip={bgzip}]"] = (o.kind, o.sig())
        else:
            lines = sc.read_lines(outp, gz=bgzip)
            idx = sc.load_pickle(outp + ".gsi")
            from mc.props import c10

            resolved = {k: [c10.resolve(outp, bgzip, v[0]).split("\t")[0], c10.resolve(outp, bgzip, v[1]).split("\t")[0]] for k, v in sorted(idx.items())}
            out[f"sort[bgzip={bgzip}]"] = ("ok", lines, resolved)
    # realign
    rd = os.path.join(d, "ra")
    cfg = rc.make_inputs(rd, 4)
    rgaf = os.path.join(rd, f"a2.gaf{ext}")
    vi.write_gaf(rgaf, open(cfg["gaf"]).read(), variant)
    routp = os.path.join(rd, "out.gaf")
    if os.path.exists(routp):
        os.remove(routp)
    o = fw.guarded(R.run_realign, gaf=rgaf, graph=cfg["gfa"], fasta=cfg["fasta"], output=routp, cores=1, _trigger_s=600)
    gc.collect()
    out["realign"] = (o.kind, open(routp).read() if o.kind == "ok" else o.sig())
    return out


def compare(res, base, got, what, case):
    for k in base:
        res.evaluations += 1
        if got.get(k) != base[k]:
            a, b = base[k], got.get(k)
            detail = ""
            if isinstance(a, tuple) and isinstance(b, tuple) and a[0] != b[0]:
                detail = f"plain: {a[0]}, compressed: {b[0]} {b[1] if len(b) > 1 and isinstance(b[1], str) else ''}"
            else:
                detail = f"plain {str(a)[:160]} ... vs compressed {str(b)[:160]}"
            name = k.split("[")[0].split(" ")[0] + (" -" + k.split(" -")[1].split(" ")[0].split("[")[0] if " -" in k else "")
            res.fail(f"C17/{name}-differs", f"{what}: {k} differs between plain and compressed input: {detail}", dict(case, item=k))


def gaf_part(res, spec, tier, scratch):
    base = run_gaf_side(scratch, ("plain",), "same")
    g, urecs, srecs = view_dataset()
    text = "".join(r.line() + "\n" for r in urecs)
    variants = vi.bgzf_variants(text, bounds(tier)["bgzf_max_cuts"])
    stride = bounds(tier)["layout_stride"]
    variants = variants[::stride]
    for i, v in enumerate(variants):
        if i % spec["of"] != spec["shard"]:
            continue
        # the cut positions were computed on the unstable file; they are applied to every file (positions beyond a file's end are ignored)
        if i % 5 == 0:
            run_gaf_side(scratch, ("plain",), "same")  # the plain file is back at the path before the next compressed one
        got = run_gaf_side(scratch, v, "same")
        res.count("bgzf_layouts")
        if len(v[1]) >= 1:
            res.nt(fw.h64(["gaf", v]))
        compare(res, base, got, f"BGZF layout cuts={v[1]} empty_after={v[2]} eof={v[3]}", {"part": "gaf", "variant": list(v)})
    if spec["shard"] == 1 % spec["of"]:
        # the same files without a newline after the last record, plain against compressed
        base_n = run_gaf_side(scratch, ("plain-nonl",), "nonl")
        for v in variants[:: max(1, len(variants) // 6)][:6]:
            got = run_gaf_side(scratch, (v[0] + "-nonl",) + tuple(v[1:]), "nonl")
            res.count("bgzf_layouts_without_final_newline")
            res.nt(fw.h64(["gaf-nonl", v]))
            compare(res, base_n, got, f"last line not newline terminated, BGZF layout cuts={v[1]} empty_after={v[2]} eof={v[3]}", {"part": "gaf", "variant": [v[0] + "-nonl"] + list(v[1:])})
    if spec["shard"] == 0:
        res.sample({"gaf": text.split("\n")[:-1], "bgzf_layout_example": list(variants[min(7, len(variants) - 1)]), "compared": sorted(base)[:12] + ["..."]})


def big_part(res, scratch):
    """files larger than one 64 KiB block, cut like bgzip does and written by pysam"""
    base = None
    g, urecs, srecs = view_dataset()

    def run(variant, tag):
        # same as run_gaf_side but with padded records: monkeypatch-free by writing through a padded dataset
        return run_gaf_side_padded(scratch, variant, tag)

    base = run(("plain",), "bplain")
    for v in (("bgzip64k",), ("pysam",)):
        got = run(v, "b" + v[0])
        res.nt(fw.h64(["big", v]))
        res.count("files_over_64k")
        compare(res, base, got, f">64 KiB file, {v[0]}", {"part": "big", "variant": list(v)})
    # 17 records of exactly 64 KiB: every line end sits on a multiple of 64 KiB (1.1 MB files)
    base = run_gaf_side_padded(scratch, ("plain",), "aplain", aligned=True)
    for v in (("bgzip64k",), ("pysam",)):
        got = run_gaf_side_padded(scratch, v, "a" + v[0], aligned=True)
        res.nt(fw.h64(["aligned", v]))
        res.count("files_with_line_ends_on_64k_multiples")
        compare(res, base, got, f"1.1 MB file with line ends on multiples of 64 KiB, {v[0]}", {"part": "big", "variant": list(v), "aligned": True})
    base = run_gaf_side_padded(scratch, ("plain",), "uplain", aligned="2.6MB")
    for v in (("bgzip64k",), ("pysam",)):
        got = run_gaf_side_padded(scratch, v, "u" + v[0], aligned="2.6MB")
        res.nt(fw.h64(["2.6MB", v]))
        res.count("files_of_2.6MB")
        compare(res, base, got, f"2.6 MB file of 65,001-byte records, {v[0]}", {"part": "big", "variant": list(v), "aligned": "2.6MB"})


def tail_part(res, scratch):
    base = run_gaf_side_padded(scratch, ("plain",), "tplain", aligned="tail")
    for v in (("bgzip64k",), ("pysam",)):
        got = run_gaf_side_padded(scratch, v, "t" + v[0], aligned="tail")
        res.nt(fw.h64(["tail", v]))
        res.count("files_of_20x64KiB_plus_331_bytes")
        compare(res, base, got, f"file of 20 x 64 KiB + 331 bytes, {v[0]}", {"part": "big", "variant": list(v), "aligned": "tail"})


def long_path_part(res, scratch):
    """a record whose path column alone is longer than 4 KiB (1400 steps over a contig of 70 segments), between ordinary
    records: the index of the plain file and of its BGZF copy must list the same records under every node"""
    L = gen.Layout((1,) * 70, "one", 1)
    g = vi.graph_for(L, "realistic")
    ids = [f"s{i}" for i in range(1, 71)]
    zig = [(">", n) for n in ids] + [("<", n) for n in reversed(ids)]
    steps = zig * 10
    total = sum(g.segs[n].LN for o, n in steps)
    recs = [gen.walk_record(0, [(">", "s1"), (">", "s2")], 0, 2, 2), gen.walk_record(1, steps, 0, total, total), gen.walk_record(2, [("<", "s70")], 0, 1, 1),
            gen.walk_record(3, [(">", "s8"), (">", "s9"), (">", "s10")], 1, 3, 3)]
    text = "".join(r.line() + "\n" for r in recs)
    got = {}
    for name, variant in (("plain", ("plain",)), ("bgzf", ("bgzip64k",))):
        d = os.path.join(scratch, "longpath-" + name)
        os.makedirs(d, exist_ok=True)
        gfa = os.path.join(d, "g.gfa")
        fw.write_text(gfa, g.text())
        gaf = vi.write_gaf(os.path.join(d, "x.gaf" + ("" if name == "plain" else ".gz")), text, variant)
        o, ind = vi.run_index(gaf, gfa)
        if ind is None:
            got[name] = ("failed", o.sig())
            continue
        offs = sorted({x for k, v in ind.items() if k != "ref_contig" for x in v})
        rs = vi.resolve_offsets(gaf, offs)
        got[name] = ("ok", sorted((str(k[0]), sorted({rs[x].qname if not isinstance(rs[x], str) else "unresolvable" for x in v})) for k, v in ind.items() if k != "ref_contig"))
    res.evaluations += 1
    res.nt(fw.h64(["longpath"]))
    res.count("records_with_a_path_column_over_4KiB")
    want = sorted((n, sorted({r.qname for r in recs if vi.traverses(g, r, n)})) for n in g.segs if any(vi.traverses(g, r, n) for r in recs))
    for name in ("plain", "bgzf"):
        if got[name] != ("ok", want):
            bad = got[name][1] if got[name][0] != "ok" else [x for x in want if x not in got[name][1]][:3]
            res.fail("C17/index-long-path", f"record with a 1400-step path: the index of the {name} file is {'not built: ' + str(bad) if got[name][0] != 'ok' else 'wrong for ' + str(bad)} (the other copy: {'same' if got['plain'] == got['bgzf'] else 'different'})",
                     {"part": "longpath"})
            break


def side_by_side_part(res, scratch):
    """x.gaf and x.gaf.gz next to each other, indexed and viewed with the *default* index paths (no -o / -i), in both
    orders: what is found for each file must be what is found when it is alone in its directory"""
    from gaftools.cli import index, view

    g, urecs, srecs = view_dataset()
    recs = vi.pad_records(urecs, 150_000)
    text = "".join(r.line() + "\n" for r in recs)

    def queries(d, gaf):
        out = {}
        for n in g.segs:
            outp = os.path.join(d, "v.out")
            if os.path.exists(outp):
                os.remove(outp)
            o = fw.guarded(view.run, gaf_path=gaf, output=outp, nodes=[n], _trigger_s=1.0, _budget=300_000)
            out[n] = (o.kind if o.kind != "cle" else "nothing-found", open(outp).read().split("\n") if os.path.exists(outp) and o.kind == "ok" else None)
        return out

    def setup(d):
        os.makedirs(d, exist_ok=True)
        gfa = os.path.join(d, "g.gfa")
        fw.write_text(gfa, g.text())
        return gfa

    alone = {}
    for name, variant in (("x.gaf", ("plain",)), ("x.gaf.gz", ("bgzip64k",))):
        d = os.path.join(scratch, "alone-" + name)
        gfa = setup(d)
        gaf = vi.write_gaf(os.path.join(d, name), text, variant)
        o = fw.guarded(index.run, gaf_path=gaf, gfa_path=gfa, output=None)
        alone[name] = (o.kind, queries(d, gaf) if o.kind == "ok" else o.sig())
    if alone["x.gaf"] != alone["x.gaf.gz"]:
        res.fail("C17/view-n-default-index-differs", f"default index path, each file alone: plain {str(alone['x.gaf'])[:150]} vs compressed {str(alone['x.gaf.gz'])[:150]}", {"part": "side"})
    for order in (("x.gaf", "x.gaf.gz"), ("x.gaf.gz", "x.gaf")):
        d = os.path.join(scratch, "both-" + order[0])
        gfa = setup(d)
        paths = {"x.gaf": vi.write_gaf(os.path.join(d, "x.gaf"), text, ("plain",)), "x.gaf.gz": vi.write_gaf(os.path.join(d, "x.gaf.gz"), text, ("bgzip64k",))}
        kinds = [fw.guarded(index.run, gaf_path=paths[n], gfa_path=gfa, output=None).kind for n in order]
        for n in order:
            res.evaluations += 1
            res.nt(fw.h64(["side", order, n]))
            res.count("side_by_side_default_index_queries", len(g.segs))
            got = (kinds[order.index(n)], queries(d, paths[n]))
            if got != alone[n]:
                bad = [k for k in got[1] if alone[n][1].get(k) != got[1][k]] if isinstance(alone[n][1], dict) else []
                res.fail("C17/view-n-side-by-side-differs", f"{order[0]} indexed first, then {order[1]} (default index paths), view -n on {n}: nodes {bad[:4]} give {str([got[1][k][0] for k in bad[:4]])} instead of what the file gives when it is alone in its directory",
                         {"part": "side"})


def pad_exact(recs, n, size=65536):
    """n records (cycling through recs) whose lines are exactly `size` bytes long including the newline, so that the
    line ends fall on every multiple of 64 KiB: a reader that works in power-of-two chunks meets a chunk boundary
    exactly on a newline"""
    out = []
    for i in range(n):
        r = recs[i % len(recs)]
        base = rgfa.Rec(f"{r.qname}x{i}" if i >= len(recs) else r.qname, *r.cols()[1:], opt=list(r.opt))
        need = size - 1 - len(base.line()) - len("\tzz:Z:")
        base.opt = list(base.opt) + ["zz:Z:" + gen._seq(need, i)]
        assert len(base.line()) + 1 == size
        out.append(base)
    return out


def pad_tail(recs, n, tail):
    """n records of exactly 64 KiB followed by one short record, the file being n * 65536 + tail bytes long (tail small:
    what is left over after the last full power-of-two chunk is smaller than any buffer)"""
    out = pad_exact(recs, n)
    r = recs[n % len(recs)]
    last = rgfa.Rec(f"{r.qname}x{n}", *r.cols()[1:], opt=list(r.opt))
    need = tail - 1 - len(last.line()) - len("\tzz:Z:")
    assert need >= 0, (tail, len(last.line()))
    last.opt = list(last.opt) + ["zz:Z:" + gen._seq(need, n)]
    assert len(last.line()) + 1 == tail
    return out + [last]


def run_gaf_side_padded(scratch, variant, tag, aligned=False):
    global view_dataset, sort_dataset
    vd, sd = view_dataset, sort_dataset

    def vd2():
        g, u, s_ = vd()
        if aligned == "tail":
            return g, pad_tail(u, 20, 331), pad_tail(s_, 20, 331)
        if aligned == "2.6MB":
            # 41 records of 65,001 bytes: lines straddle every power-of-two mark up to 2 MiB
            return g, pad_exact(u, 41, 65_001), pad_exact(s_, 41, 65_001)
        if aligned:
            return g, pad_exact(u, 17), pad_exact(s_, 17)
        return g, vi.pad_records(u, 150_000), vi.pad_records(s_, 150_000)

    def sd2():
        g, r = sd()
        if aligned == "tail":
            return g, pad_tail(r, 20, 331)
        if aligned == "2.6MB":
            return g, pad_exact(r, 41, 65_001)
        if aligned:
            return g, pad_exact(r, 17)
        return g, vi.pad_records(r, 150_000)

    view_dataset, sort_dataset = vd2, sd2
    try:
        return run_gaf_side(scratch, variant, tag)
    finally:
        view_dataset, sort_dataset = vd, sd


# ----------------------------------------------------------------------------------------------
# graph side


def write_graph(path, text):
    if NO_FINAL_NEWLINE[0] == "blank":
        # an empty line between the last S line and what follows (tolerated by the reader of plain files)
        lines = text.split("\n")
        k = max((i for i, l in enumerate(lines) if l.startswith("S\t")), default=0) + 1
        text = "\n".join(lines[:k] + [""] + lines[k:])
    elif NO_FINAL_NEWLINE[0]:
        text = text.rstrip("\n")
    if path.endswith(".gz"):
        # two gzip members (what `cat a.gz b.gz` or bgzip produce): a valid gzip file
        data = text.encode()
        cut = data.rfind(b"\n", 0, len(data) // 2) + 1
        with open(path, "wb") as f:
            f.write(gzip.compress(data[:cut]) + gzip.compress(data[cut:]))
    else:
        fw.write_text(path, text)


def l_first(text):
    lines = [l for l in text.split("\n") if l]
    return "".join(l + "\n" for l in [x for x in lines if x.startswith("L")] + [x for x in lines if not x.startswith("L")][::-1])


def run_graph_side(scratch, gz, tag, lfirst=False):
    from gaftools.cli import view, find_path
    from gaftools.cli import realign as R
    import gc

    out = Outputs()
    d = os.path.join(scratch, tag)
    os.makedirs(d, exist_ok=True)
    ext = ".gfa.gz" if gz else ".gfa"
    g, urecs, srecs = view_dataset()
    order = l_first if lfirst else (lambda t: t)
    gfa = os.path.join(d, "g" + ext)
    write_graph(gfa, order(g.text()))
    for kind, recs in (("unstable", urecs), ("stable", srecs)):
        gaf = os.path.join(d, f"{kind}.gaf")
        fw.write_text(gaf, "".join(r.line() + "\n" for r in recs))
        o, ind = vi.run_index(gaf, gfa)
        out[f"index[{kind}]"] = (o.kind, sorted((str(k), v) for k, v in ind.items()) if ind else o.sig())
        P = type("P", (), {})()
        P.gaf_path, P.gfa_path, P.scratch = gaf, gfa, d
        o, lines = c04.run_view(P, fmt="stable" if kind == "unstable" else "unstable")
        out[f"view -f[{kind}]"] = (o.kind, lines if o.kind == "ok" else o.sig())
    sg, srt = sort_dataset()
    sgfa = os.path.join(d, "sg" + ext)
    write_graph(sgfa, order(sg.text()))
    sgaf = os.path.join(d, "s.gaf")
    fw.write_text(sgaf, "".join(r.line() + "\n" for r in srt))
    outp = os.path.join(d, "sorted.gaf")
    o = sc.run_sort(d, sgfa, sgaf, outgaf=outp)
    out["sort"] = (o.kind, sc.read_lines(outp) if o.kind == "ok" else o.sig())
    rd = os.path.join(d, "ra")
    cfg = rc.make_inputs(rd, 4)
    rgfa_path = os.path.join(rd, "g2" + ext)
    write_graph(rgfa_path, order(rc.GFA_TEXT))
    routp = os.path.join(rd, "out.gaf")
    if os.path.exists(routp):
        os.remove(routp)
    o = fw.guarded(R.run_realign, gaf=cfg["gaf"], graph=rgfa_path, fasta=cfg["fasta"], output=routp, cores=1, _trigger_s=600)
    gc.collect()
    out["realign"] = (o.kind, open(routp).read() if o.kind == "ok" else o.sig())
    fpath = os.path.join(d, "paths.txt")
    fw.write_text(fpath, ">s1>s2\n<s2<s1\n>s2>s1\n>s3\n")
    fout = os.path.join(d, "fp.out")
    o = fw.guarded(find_path.run, gfa_path=rgfa_path, input_path=fpath, output=fout, fasta=True)
    out["find_path"] = (o.kind, open(fout).read() if o.kind == "ok" else o.sig())
    # order_gfa: contents of the complete outputs and of the per-chromosome outputs
    c1 = gen.Chain(["snp", "link"], chrom="chr1", decl="alt")
    c2 = gen.Chain(["deletion"], chrom="chr2", id_base=40, hap="hB#1#c", decl="rev")
    og = gen.merge_graphs([c1.g, c2.g])
    for by_chrom in (False, True):
        run = oc.run_order(d, order(og.text()), "chr2,chr1", by_chrom=by_chrom, with_sequence=True, suffix=ext, tag=f"o{int(by_chrom)}")
        if run.outcome.kind != "ok":
            out[f"order_gfa[by_chrom={by_chrom}]"] = (run.outcome.kind, run.outcome.sig())
            continue
        items = []
        for suf in (["chr1", "chr2"] if by_chrom else ["complete"]):
            t = run.gfa(suf)
            gg = rgfa.Graph.parse(t) if t is not None else None
            csvs = None
            for f in run.files:  # the CSV's name prefix depends on the input suffix; its contents must not
                if f.endswith(f"-{suf}.csv"):
                    csvs = run.csv_rows(suf, csvname=f[: -len(f"-{suf}.csv")])
            items.append((suf, [s.line() for s in gg.segs.values()] if gg else None, sorted(map(str, gg.link_multiset().items())) if gg else None, csvs))
        out[f"order_gfa[by_chrom={by_chrom}]"] = ("ok", items)
    return out


NO_FINAL_NEWLINE = [False]


def graph_part(res, scratch):
    for lfirst, nonl in ((False, False), (True, False), (False, True), (True, True), (False, "blank"), (True, "blank")):
        NO_FINAL_NEWLINE[0] = nonl
        try:
            base = run_graph_side(scratch, False, "gplain", lfirst)
            got = run_graph_side(scratch, True, "ggz", lfirst)
        finally:
            NO_FINAL_NEWLINE[0] = False
        res.nt(fw.h64(["graph-gz", lfirst, nonl]))
        compare(res, base, got, "gzip-compressed graph" + (" (L lines before S lines)" if lfirst else "") + (" (an empty line inside the file)" if nonl == "blank" else " (last line not newline terminated)" if nonl else ""), {"part": "graph"})
        res.count("subcommands_with_compressed_graph", len(base))


def run_shard(spec, tier, scratch):
    res = fw.ShardResult()
    if spec["part"] == "gaf":
        gaf_part(res, spec, tier, scratch)
    elif spec["part"] == "graph":
        graph_part(res, scratch)
    elif spec["part"] == "tail":
        tail_part(res, scratch)
    elif spec["part"] == "side":
        side_by_side_part(res, scratch)
        long_path_part(res, scratch)
    else:
        big_part(res, scratch)
    return res


def replay(case, scratch):
    res = fw.ShardResult()
    if case["part"] == "graph":
        graph_part(res, scratch)
    elif case["part"] == "side":
        side_by_side_part(res, scratch)
        return res.failures
    elif case["part"] == "longpath":
        long_path_part(res, scratch)
        return res.failures
    elif case["part"] == "big":
        base = run_gaf_side_padded(scratch, ("plain",), "bplain", aligned=case.get("aligned") or False)
        v = tuple(case["variant"])
        got = run_gaf_side_padded(scratch, v, "bvar", aligned=case.get("aligned") or False)
        compare(res, base, got, f">64 KiB file, {v[0]}", {"part": "big", "variant": list(v)})
    else:
        v = case["variant"]
        variant = (v[0], v[1], v[2], v[3])
        base = run_gaf_side(scratch, ("plain-nonl",) if v[0].endswith("-nonl") else ("plain",), "same")
        got = run_gaf_side(scratch, variant, "same")
        compare(res, base, got, f"BGZF layout {v[1:]}", {"part": "gaf", "variant": list(v)})
    item = case.get("item")
    return [f for f in res.failures if item is None or f["case"].get("item") == item] or res.failures
