"""C18 - order_gfa isolates components it cannot order."""

import itertools

from mc import framework as fw
from mc import rgfa
from mc import gen
from mc import ordercommon as oc
from mc.props import c07

ID = "C18"
LEVEL = "exploration"
TECHNIQUE = "bounded-exhaustive enumeration of (multi-chromosome graph with non-chain components, chromosome order, DFS root) through run_order_gfa; differential oracle against the same request without the skipped names"
RULE = (
    "graphs of 2-3 chromosome components in which every subset of the non-reference-chain positions is replaced by a clear non-chain: extra "
    "dead-end tip on a scaffold node, extra tip on a bubble node, three articulation points on one cycle, two chains joined mid-chain through "
    "a haplotype node; every --chromosome_order permutation and prefix, every position of the bad component in it; DFS roots / component "
    "report orders / hash seeds as in C06; --by-chrom and complete output. evaluations = order_gfa runs; non-trivial = runs whose request "
    "contains at least one non-chain component."
)
ASSUMPTIONS = [
    "'not a simple chain' is decided by the brute-force block-cut model: the collapsed bubble graph is not a path",
    "borderline shapes whose chain-ness the statement leaves open (a component without any articulation point) are not in the alphabet",
    "a chain-shaped component that mixes two reference contigs (two chains joined end to end through a haplotype node) may be ordered or skipped, but must not crash the command",
]
LEVEL_TEXT = (
    "Every placement of every non-chain shape at every position of the chromosome order is run through the real command and compared "
    "with the run in which the skipped names are simply absent from the request (so a skip must not consume BO numbers, break the loop, "
    "or leave files behind); the suite never presents a component that fails the chain check."
)
LEVEL_NOTE = "Differential oracle against the implementation itself plus the independent reader of mc/rgfa.py; the chain/non-chain classification is cross-checked by mc/gen.py:chain_order_by_model."
DESIGN_REF = "DESIGN.md §4 C18"
EXHAUSTIVE = True
BAD_SHAPES = ["tip-on-scaffold", "tip-on-bubble-node", "three-articulation-cycle", "joined-mid-chain"]
HASHSEEDS = {"quick": [0, 1], "thorough": [0, 1, 2, 3]}


def bounds(tier):
    return {"chromosomes": [2, 3], "shapes": BAD_SHAPES, "hashseeds": HASHSEEDS[tier]}


def good(chrom, id_base, hap, blocks=("snp", "link")):
    return gen.Chain(list(blocks), chrom=chrom, id_base=id_base, hap=hap, decl="alt")


def bad(chrom, id_base, hap, shape):
    """a component of `chrom` that is clearly not a chain"""
    c = gen.Chain(["snp", "link"] if shape == "three-articulation-cycle" else ["snp", "insertion"], chrom=chrom, id_base=id_base, hap=hap, decl="fwd")
    g = c.g
    scaff = [x for k, x in c.order if k == "s"]
    n = [0]

    def extra(ln=2, rank=4):
        n[0] += 1
        nid = f"x{id_base + n[0]}"
        g.add_seg(nid, gen._seq(ln, id_base + n[0]), [("LN", "i", str(ln)), ("SN", "Z", f"{hap}.x"), ("SO", "i", str(700 + 10 * n[0])), ("SR", "i", str(rank))])
        return nid

    if shape == "tip-on-scaffold":
        t = extra()
        g.add_link(scaff[1], "+", t, "+", "0M")
    elif shape == "tip-on-bubble-node":
        bub = [x for k, x in c.order if k == "b" and len(x) == 2][0]
        t = extra()
        g.add_link(sorted(bub)[0], "+", t, "+", "0M")
    elif shape == "three-articulation-cycle":
        # the two scaffold nodes of a plain link plus a third node form a cycle; the third node has its own dangling
        # tip, so all three nodes of the cycle are articulation points and the block has no inner node
        m = extra()
        g.add_link(scaff[1], "+", m, "+", "0M")
        g.add_link(m, "+", scaff[2], "+", "0M")
        t = extra()
        g.add_link(m, "+", t, "-", "0M")
    elif shape == "joined-mid-chain":
        # a second reference-like arm joined through a haplotype node in the middle of the chain
        m = extra()
        arm = extra()
        g.add_link(scaff[1], "+", m, "+", "0M")
        g.add_link(m, "+", arm, "+", "0M")
        t = extra()
        g.add_link(arm, "+", t, "+", "0M")
    else:
        raise ValueError(shape)
    if gen.chain_order_by_model(g) is not None:
        raise fw.HarnessError(f"shape {shape} is chain-shaped according to the model; it must not be")
    c.bad = shape
    return c


def plan(tier, seed):
    specs = []
    for hs in HASHSEEDS[tier]:
        for nchrom in (2, 3):
            for shape in BAD_SHAPES:
                specs.append({"hashseed": hs, "nchrom": nchrom, "shape": shape})
        specs.append({"hashseed": hs, "mixed": True})
        specs.append({"hashseed": hs, "reuse": True})
        specs.append({"hashseed": hs, "open": True})
    return specs


def outputs_of(run, names, by_chrom):
    """parsed per-chromosome results: name -> (segment lines sorted, link keys, csv rows)"""
    out = {}
    if by_chrom:
        for c in names:
            t = run.gfa(c)
            if t is not None:
                g = rgfa.Graph.parse(t)
                out[c] = (sorted(s.line() for s in g.segs.values()), sorted(map(str, g.link_multiset().items())), run.csv_rows(c))
    else:
        t = run.gfa("complete")
        if t is not None:
            g = rgfa.Graph.parse(t)
            out["complete"] = (sorted(s.line() for s in g.segs.values()), sorted(map(str, g.link_multiset().items())), run.csv_rows("complete"))
    return out


def judge(res, scratch, g, comps, req, by_chrom, root, flip, what, lfirst=False):
    import os

    names = req.split(",")
    badnames = [c.chrom for c in comps if getattr(c, "bad", None)]
    res.next_call()
    gtext = g.text()
    if lfirst:
        # the same graph with its L lines before its S lines (and the S lines in reverse order)
        ls = [l for l in gtext.split("\n") if l]
        gtext = "".join(l + "\n" for l in [x for x in ls if x.startswith("L")] + [x for x in ls if not x.startswith("L")][::-1])
    run = oc.run_order(scratch, gtext, req, by_chrom=by_chrom, root=root, flip=flip, tag="a")
    res.evaluations += 1
    case = {"gfa": g.text(), "chromosome_order": req, "by_chrom": by_chrom, "root": root, "flip": flip, "bad": badnames, "lfirst": lfirst,
            "hashseed": int(os.environ.get("PYTHONHASHSEED", "0"))}
    if any(n in badnames for n in names):
        res.nt(fw.h64([g.text(), req, by_chrom, root, flip]))
    if run.outcome.kind != "ok":
        res.fail(f"C18/command-failed:{run.outcome.sig()}", f"{what}: the command does not complete normally: {run.outcome.brief()}", case)
        return
    for bn in badnames:
        if bn in names and by_chrom and (run.gfa(bn) is not None or run.csv_rows(bn) is not None):
            res.fail("C18/output-for-skipped-component", f"{what}: files were written for the non-chain component {bn}: {run.files}", case)
    if not by_chrom:
        t = run.gfa("complete")
        if t is not None:
            got = set(rgfa.Graph.parse(t).segs)
            for c in comps:
                if getattr(c, "bad", None) and got & set(c.g.segs):
                    res.fail("C18/skipped-component-in-complete-file", f"{what}: nodes of the non-chain component {c.chrom} appear in the complete file", case)
    rest = [n for n in names if n not in badnames]
    if not rest:
        return
    ref = oc.run_order(scratch, gtext, ",".join(rest), by_chrom=by_chrom, root=root, flip=flip, tag="b")
    if ref.outcome.kind != "ok":
        return  # the reference request itself fails: not this property's business
    a, b = outputs_of(run, rest, by_chrom), outputs_of(ref, rest, by_chrom)
    if a != b:
        k = next((x for x in b if a.get(x) != b[x]), None)
        detail = ""
        if k and k in a:
            part = ["S lines", "links", "CSV"][next(i for i in range(3) if a[k][i] != b[k][i])]
            detail = f"; {k}: {part} differ"
        elif k:
            detail = f"; no output for {k}"
        res.fail("C18/other-chromosomes-affected", f"{what}: the outputs for {rest} differ from the request without the skipped names{detail}", case)


def shard_single_shape(res, scratch, spec):
    nchrom, shape = spec["nchrom"], spec["shape"]
    # the second name contains the first ("chr1" is a prefix of "chr12")
    slots = [("chr1", 0, "hA#1#c"), ("chr12", 40, "hB#1#c"), ("chr3", 80, "hC#1#c")][:nchrom]
    # every non-empty subset of the chromosomes is replaced by the non-chain shape
    for k in range(1, nchrom + 1):
        for badset in itertools.combinations(range(nchrom), k):
            comps = [bad(*slots[i], shape) if i in badset else good(*slots[i]) for i in range(nchrom)]
            g = gen.merge_graphs([c.g for c in comps])
            allnames = [c.chrom for c in comps]
            for perm in itertools.permutations(allnames):
                for plen in range(1, len(perm) + 1):
                    req = ",".join(perm[:plen])
                    for by_chrom in (True, False):
                        for root, flip in ((0, False), (5, True), (None, False)):
                            judge(res, scratch, g, comps, req, by_chrom, root, flip, f"[{shape} at {[allnames[i] for i in badset]}] --chromosome_order {req}{' --by-chrom' if by_chrom else ''}")
                        # the same graph as it looks after an earlier order_gfa run (every S line carries BO/NO already)
                        judge(res, scratch, oc.stale_tagged(g), comps, req, by_chrom, None, False,
                              f"[{shape} at {[allnames[i] for i in badset]}, input already carries BO/NO tags] --chromosome_order {req}{' --by-chrom' if by_chrom else ''}")
                        res.count("runs_on_already_tagged_input")
                        judge(res, scratch, g, comps, req, by_chrom, None, False,
                              f"[{shape} at {[allnames[i] for i in badset]}, L lines before S lines] --chromosome_order {req}{' --by-chrom' if by_chrom else ''}", lfirst=True)
                        res.count("runs_with_links_before_segments")
    res.sample({"shape": shape, "chromosomes": nchrom, "example_request": "chr12,chr1"})


def shard_reused_outdir(res, scratch):
    """two-step history in one output directory: first every chromosome is a chain and is written --by-chrom, then the
    same-named graph is ordered again with one chromosome turned into a non-chain: nothing of it may reach the complete file"""
    import os

    slots = [("chr1", 0, "hA#1#c"), ("chr2", 40, "hB#1#c"), ("chr3", 80, "hC#1#c")]
    for shape in BAD_SHAPES:
        for badi in range(3):
            goods = [good(*sl) for sl in slots]
            g1 = gen.merge_graphs([c.g for c in goods])
            comps = [bad(*slots[i], shape) if i == badi else good(*slots[i]) for i in range(3)]
            g2 = gen.merge_graphs([c.g for c in comps])
            for req in ("chr1,chr2,chr3", "chr3,chr2,chr1"):
                first = oc.run_order(scratch, g1.text(), req, by_chrom=True, tag="hist")
                run = oc.run_order(scratch, g2.text(), req, by_chrom=False, tag="hist", keep_outdir=True)
                res.evaluations += 1
                res.nt(fw.h64(["reuse", shape, badi, req]))
                res.count("two_step_histories")
                case = {"gfa": g2.text(), "chromosome_order": req, "by_chrom": False, "root": None, "flip": False, "bad": [comps[badi].chrom],
                        "earlier_run_in_same_outdir": {"gfa": g1.text(), "by_chrom": True}, "hashseed": int(os.environ.get("PYTHONHASHSEED", "0"))}
                if first.outcome.kind != "ok":
                    continue
                if run.outcome.kind != "ok":
                    res.fail(f"C18/command-failed:{run.outcome.sig()}", f"[{shape} at {comps[badi].chrom}, output directory reused] {run.outcome.brief()}", case)
                    continue
                t = run.gfa("complete")
                if t is not None and set(rgfa.Graph.parse(t).segs) & set(comps[badi].g.segs):
                    res.fail("C18/skipped-component-in-complete-file", f"[{shape} at {comps[badi].chrom}] after an earlier --by-chrom run into the same directory, nodes of the skipped component appear in the complete file", case)
                # a merged run of the all-chain graph first (it leaves complete.gfa / complete.csv behind), then the merged run
                # with the non-chain: its files must equal those of the same request in a fresh directory
                oc.run_order(scratch, g1.text(), req, by_chrom=False, tag="hist2")
                again = oc.run_order(scratch, g2.text(), req, by_chrom=False, tag="hist2", keep_outdir=True)
                fresh = oc.run_order(scratch, g2.text(), req, by_chrom=False, tag="fresh")
                res.evaluations += 1
                res.count("two_step_histories")
                case2 = dict(case, earlier_run_in_same_outdir={"gfa": g1.text(), "by_chrom": False})
                if again.outcome.kind == "ok" and fresh.outcome.kind == "ok":
                    a, b = outputs_of(again, [], False), outputs_of(fresh, [], False)
                    if a != b:
                        part = ["S lines", "links", "CSV"][next((i for i in range(3) if a.get("complete", (0, 0, 0))[i] != b.get("complete", (1, 1, 1))[i]), 2)]
                        res.fail("C18/reused-directory-differs", f"[{shape} at {comps[badi].chrom}] --chromosome_order {req} after an earlier merged run into the same directory: the complete files differ from those of a fresh directory ({part})", case2)
                elif again.outcome.kind != fresh.outcome.kind:
                    res.fail(f"C18/command-failed:{again.outcome.sig()}", f"[{shape} at {comps[badi].chrom}, output directory reused after a merged run] {again.outcome.brief()}", case2)


def no_articulation_component(chrom, id_base, hap, kind):
    """a component without any articulation point: a ring, or two linked segments. Whether that is 'a chain' is left
    open by the statement; the command must complete and must not disturb the other chromosomes."""
    g = rgfa.Graph()
    n = 4 if kind == "ring" else 2
    ids = [f"c{id_base + i}" for i in range(n)]
    for i, nid in enumerate(ids):
        g.add_seg(nid, gen._seq(3, id_base + i), [("LN", "i", "3"), ("SN", "Z", chrom), ("SO", "i", str(3 * i)), ("SR", "i", "0")])
    for a, b in zip(ids, ids[1:]):
        g.add_link(a, "+", b, "+", "0M")
    if kind == "ring":
        g.add_link(ids[-1], "+", ids[0], "+", "0M")

    class C:
        pass

    c = C()
    c.g, c.chrom, c.bad, c.open_shape = g, chrom, None, kind
    return c


def shard_open_shapes(res, scratch):
    import os

    for kind in ("ring", "two-segments"):
        for pos in range(3):
            slots = [("chr1", 0, "hA#1#c"), ("chr2", 40, "hB#1#c"), ("chr3", 80, "hC#1#c")]
            comps = [no_articulation_component(slots[i][0], 300 + 10 * i, slots[i][2], kind) if i == pos else good(*slots[i]) for i in range(3)]
            g = gen.merge_graphs([c.g for c in comps])
            for req in ("chr1,chr2,chr3", "chr3,chr2,chr1", comps[pos].chrom):
                for by_chrom in (True, False):
                    run = oc.run_order(scratch, g.text(), req, by_chrom=by_chrom, tag="open")
                    res.evaluations += 1
                    res.next_call()
                    res.nt(fw.h64(["open", kind, pos, req, by_chrom]))
                    case = {"gfa": g.text(), "chromosome_order": req, "by_chrom": by_chrom, "root": None, "flip": False, "bad": [], "open_shape": kind,
                            "hashseed": int(os.environ.get("PYTHONHASHSEED", "0"))}
                    if run.outcome.kind != "ok":
                        res.fail(f"C18/command-failed:{run.outcome.sig()}", f"[{kind} component at {comps[pos].chrom}] --chromosome_order {req}: the command does not complete normally: {run.outcome.brief()}", case)
                        continue
                    # if it was skipped, the others must look as if it had not been requested
                    skipped = by_chrom and run.gfa(comps[pos].chrom) is None
                    rest = [n for n in req.split(",") if n != comps[pos].chrom]
                    if skipped and rest:
                        ref = oc.run_order(scratch, g.text(), ",".join(rest), by_chrom=True, tag="openref")
                        if ref.outcome.kind == "ok" and outputs_of(run, rest, True) != outputs_of(ref, rest, True):
                            res.fail("C18/other-chromosomes-affected", f"[{kind} component at {comps[pos].chrom}, skipped] the outputs for {rest} differ from the request without it", case)
    # the default chromosome order twice in one process, with one non-chain among the 25 chromosomes
    names = [f"chr{i}" for i in range(1, 23)] + ["chrX", "chrY", "chrM"]
    comps = []
    for i, nm in enumerate(names):
        if nm == "chr7":
            comps.append(bad(nm, 500, "h7#1#c", "tip-on-scaffold"))
        elif nm in ("chr1", "chrX"):
            comps.append(good(nm, 600 + 30 * i, f"h{i}#1#c", blocks=("snp",)))
        else:
            comps.append(no_articulation_component(nm, 2000 + 10 * i, "-", "two-segments"))
    g25 = gen.merge_graphs([c.g for c in comps])
    outs = []
    for k in range(2):
        run = oc.run_order(scratch, g25.text(), "", by_chrom=True, tag=f"def{k}")
        res.evaluations += 1
        res.next_call()
        outs.append((run.outcome.kind, run.outcome.sig(), sorted(f for f in run.files if "chr1" in f or "chrX" in f)))
    case = {"gfa": g25.text(), "chromosome_order": "", "by_chrom": True, "root": None, "flip": False, "bad": ["chr7"], "default_twice": True, "hashseed": 0}
    if outs[0][0] != "ok":
        res.fail(f"C18/command-failed:{outs[0][1]}", f"default chromosome order with one non-chain (chr7): {outs[0][1]}", case)
    elif outs[1] != outs[0]:
        res.fail("C18/second-run-differs", f"the same command run twice in one process: first {outs[0]}, second {outs[1]}", case)
    res.count("default_order_runs", 2)


def shard_mixed(res, scratch):
    """one component of each bad shape together, and the chain-shaped-but-mixed end-to-end join"""
    comps = [bad("chr1", 0, "hA#1#c", "tip-on-scaffold"), good("chr2", 40, "hB#1#c"), bad("chr3", 80, "hC#1#c", "three-articulation-cycle")]
    g = gen.merge_graphs([c.g for c in comps])
    for perm in itertools.permutations([c.chrom for c in comps]):
        for by_chrom in (True, False):
            judge(res, scratch, g, comps, ",".join(perm), by_chrom, None, False, f"[two different non-chains] --chromosome_order {','.join(perm)}")
    # two chains joined end to end through a haplotype node: chain-shaped but mixing reference contigs
    a, b = good("chr1", 0, "hA#1#c"), good("chr2", 40, "hB#1#c")
    g2 = gen.merge_graphs([a.g, b.g])
    ta = [x for k, x in a.order if k == "b"][-1]
    tb = [x for k, x in b.order if k == "b"][0]
    g2.add_seg("j1", "ACG", [("LN", "i", "3"), ("SN", "Z", "hJ#1#c"), ("SO", "i", "0"), ("SR", "i", "5")])
    g2.add_link(sorted(ta)[0], "+", "j1", "+", "0M")
    g2.add_link("j1", "+", sorted(tb)[0], "+", "0M")
    third = good("chr3", 80, "hC#1#c")
    g3 = gen.merge_graphs([g2, third.g])
    for req in ("chr1,chr3", "chr3,chr1", "chr2,chr3", "chr3"):
        run = oc.run_order(scratch, g3.text(), req, by_chrom=True, tag="m")
        res.evaluations += 1
        # which name the merged component gets is decided by a majority vote that may tie: only requests naming it are judged
        if run.outcome.kind == "exit":
            continue  # 'chromosome name did not match a component' is a legitimate refusal
        if run.outcome.kind != "ok":
            res.fail(f"C18/command-failed:{run.outcome.sig()}", f"[end-to-end joined chains] --chromosome_order {req}: {run.outcome.brief()}",
                     {"gfa": g3.text(), "chromosome_order": req, "by_chrom": True, "root": None, "flip": False, "bad": [], "joined": True})


def run_shard(spec, tier, scratch):
    res = fw.ShardResult().begin(spec, tier)
    if spec.get("open"):
        shard_open_shapes(res, scratch)
    elif spec.get("reuse"):
        shard_reused_outdir(res, scratch)
    elif spec.get("mixed"):
        shard_mixed(res, scratch)
    else:
        shard_single_shape(res, scratch, spec)
    return res


def replay(case, scratch):
    res = fw.ShardResult()
    g = rgfa.Graph.parse(case["gfa"])
    if case.get("open_shape") or case.get("default_twice"):
        if case.get("default_twice"):
            return []  # needs the first run: re-created through the call sequence
        run = oc.run_order(scratch, case["gfa"], case["chromosome_order"], by_chrom=case["by_chrom"], tag="open")
        if run.outcome.kind != "ok":
            res.fail(f"C18/command-failed:{run.outcome.sig()}", run.outcome.brief(), case)
        return res.failures
    if case.get("earlier_run_in_same_outdir") and not case["earlier_run_in_same_outdir"].get("by_chrom"):
        e = case["earlier_run_in_same_outdir"]
        oc.run_order(scratch, e["gfa"], case["chromosome_order"], by_chrom=False, tag="hist2")
        again = oc.run_order(scratch, case["gfa"], case["chromosome_order"], by_chrom=False, tag="hist2", keep_outdir=True)
        fresh = oc.run_order(scratch, case["gfa"], case["chromosome_order"], by_chrom=False, tag="fresh")
        if again.outcome.kind == "ok" and fresh.outcome.kind == "ok":
            if outputs_of(again, [], False) != outputs_of(fresh, [], False):
                res.fail("C18/reused-directory-differs", "the complete files differ from those of a fresh directory", case)
        elif again.outcome.kind != fresh.outcome.kind:
            res.fail(f"C18/command-failed:{again.outcome.sig()}", again.outcome.brief(), case)
        return res.failures
    if case.get("earlier_run_in_same_outdir"):
        e = case["earlier_run_in_same_outdir"]
        oc.run_order(scratch, e["gfa"], case["chromosome_order"], by_chrom=True, tag="hist")
        run = oc.run_order(scratch, case["gfa"], case["chromosome_order"], by_chrom=False, tag="hist", keep_outdir=True)
        if run.outcome.kind != "ok":
            res.fail(f"C18/command-failed:{run.outcome.sig()}", run.outcome.brief(), case)
        else:
            t = run.gfa("complete")
            badnodes = set()
            for comp in rgfa.components(g.adjacency()):
                names = [g.segs[n].SN for n in comp if g.segs[n].SR == 0]
                if names and max(set(names), key=names.count) in case["bad"]:
                    badnodes |= set(comp)
            if t is not None and set(rgfa.Graph.parse(t).segs) & badnodes:
                res.fail("C18/skipped-component-in-complete-file", "nodes of the skipped component appear in the complete file", case)
        return res.failures
    if case.get("joined"):
        run = oc.run_order(scratch, case["gfa"], case["chromosome_order"], by_chrom=True, tag="m")
        if run.outcome.kind not in ("ok", "exit"):
            res.fail(f"C18/command-failed:{run.outcome.sig()}", run.outcome.brief(), case)
        return res.failures
    comps = []
    for comp in rgfa.components(g.adjacency()):
        sub = rgfa.Graph()
        for n in g.segs:
            if n in comp:
                sub.segs[n] = g.segs[n]
        sub.links = [l for l in g.links if l.a in comp and l.b in comp]

        class C:
            pass

        c = C()
        names = [s.SN for s in sub.segs.values() if s.SR == 0]
        c.g, c.chrom = sub, max(set(names), key=names.count) if names else "?"
        c.bad = "replay" if c.chrom in case["bad"] else None
        comps.append(c)
    judge(res, scratch, g, comps, case["chromosome_order"], case["by_chrom"], case["root"], case["flip"], "replay", lfirst=bool(case.get("lfirst")))
    return res.failures
