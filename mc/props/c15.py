"""C15 - graph decomposition primitives are exact; edit histories keep the graph consistent.

(a) exhaustive enumeration of small labelled graphs, every DFS root / start;
(b) explicit-state model checking: breadth-first search over add-node / add-link / delete-node histories of the
    real GFA object, states de-duplicated on a canonical form, every transition compared with a set-based model."""

import os
import copy
import itertools
import collections

from mc import framework as fw
from mc import rgfa

ID = "C15"
LEVEL = "model_checking"
TECHNIQUE = (
    "explicit-state breadth-first search over operation histories of the real GFA object with canonical state hashing, "
    "each transition validated against a reference model; plus exhaustive enumeration of all small labelled graphs from every root"
)
RULE = (
    "(a) every labelled simple graph on <=N nodes under 3 side-labelling schemes, with added self-links and one parallel link, and for <=4 "
    "nodes every assignment of {absent, 4 orientations} to every pair; biccs from every root, dfs from every start, all_components; "
    "(b) BFS from the empty graph and 4 seed graphs over add_node(a|b|c), add_edge(x,+-,y,+-) for present x,y, remove_node(x) and the observations all_components(), dfs(x), biccs(root x) to depth D; the canonical state covers every attribute of the object, so hidden state (flags, caches) is explored too. "
    "evaluations = decomposition calls + transitions; non-trivial = graphs with >=1 articulation point or a cycle, transitions that change the state."
)
ASSUMPTIONS = [
    "'nothing refers to a deleted node' is judged on node adjacency (Node.start/Node.end); stale edge_tags / contig_to_nodes entries are reported as information only",
    "block and articulation-point oracles are brute force over vertex subsets (mc/rgfa.py), so graphs are limited to <=6 nodes",
]
LEVEL_TEXT = (
    "The edit-history part is explicit-state model checking of the real GFA class: all reachable states up to the depth bound are "
    "visited once, every transition executes the real method on a copy of the real object and is compared with a set-of-nodes / "
    "set-of-links model, and the invariants are evaluated in every state. The decomposition part enumerates every graph shape up to "
    "the node bound from every root, which covers the Hopcroft-Tarjan cases (root with several children, back edges to the root, "
    "parallel links, bridges) that three hand-made test graphs do not."
)
LEVEL_NOTE = "Trusted base: the brute-force oracles in mc/rgfa.py and the canonical form (sorted nodes with their start/end sets), which is everything later operations read."
DESIGN_REF = "DESIGN.md §4 C15"
EXHAUSTIVE = True


def bounds(tier):
    if tier == "quick":
        return {"max_nodes": 5, "all_orientations_max_nodes": 3, "bfs_depth": 4, "bfs_depth_seeded": 4}
    return {"max_nodes": 6, "all_orientations_max_nodes": 4, "bfs_depth": 6, "bfs_depth_seeded": 5}


NSHARD = {"quick": 16, "thorough": 64}


def plan(tier, seed):
    n = NSHARD[tier]
    specs = [{"part": "graphs", "shard": i, "of": n} for i in range(n)]
    # the search from the two richest seed graphs is split by the first operation taken from the seed state
    for s_ in ("empty", "path", "triangle", "selfloop", "parallel"):
        m = 6 if s_ in ("path", "triangle") else 1
        specs += [{"part": "bfs", "seed": s_, "first": j, "of": m} for j in range(m)]
    if tier == "thorough":
        specs += [dict(x, hashseed=1) for x in specs if x["part"] == "graphs"]
    return specs


# ----------------------------------------------------------------------------------------------
# (a) decomposition on enumerated graphs

ORI = [("+", "+"), ("+", "-"), ("-", "+"), ("-", "-")]


VIA_FILE = {"dir": None, "on": False}


def build_gfa(nodes, links):
    """links: list of (a, ao, b, bo)"""
    from gaftools.gfa import GFA

    if VIA_FILE["on"] and VIA_FILE["dir"]:
        # the same graph loaded from a GFA file whose L lines come before its S lines
        # (every third file S lines first, gzip-compressed and without a newline after its last line)
        text = "".join(f"L\t{a}\t{ao}\t{b}\t{bo}\t0M\n" for a, ao, b, bo in links)
        stext = "".join(f"S\t{n}\t*\n" for n in reversed(list(nodes)))
        if VIA_FILE["on"] == "gz":
            import gzip

            path = os.path.join(VIA_FILE["dir"], "viafile.gfa.gz")
            data = (stext + text)[:-1].encode()
            with open(path, "wb") as f:  # two gzip members (segments in the first, links in the second)
                f.write(gzip.compress(data[: len(stext)]) + gzip.compress(data[len(stext):]))
            return GFA(path)
        path = os.path.join(VIA_FILE["dir"], "viafile.gfa")
        with open(path, "w") as f:
            f.write(text + stext)
        return GFA(path)
    g = GFA()
    for n in nodes:
        g.add_node(n)
    for a, ao, b, bo in links:
        g.add_edge(a, ao, b, bo, 0)
    return g


def model_adj(nodes, links):
    adj = {n: set() for n in nodes}
    for a, ao, b, bo in links:
        adj[a].add(b)
        adj[b].add(a)
    return adj


def check_decomposition(res, nodes, links, desc, oracle_cache=None):
    adj = model_adj(nodes, links)
    if VIA_FILE["on"] is True:
        VIA_FILE["n"] = VIA_FILE.get("n", 0) + 1
        VIA_FILE["on"] = "gz" if VIA_FILE["n"] % 3 == 0 else "plain"
    case = {"nodes": list(nodes), "links": [list(l) for l in links], "via_file": VIA_FILE["on"]}
    G = build_gfa(nodes, links)
    if VIA_FILE["on"]:
        # the loaded graph's adjacency, side by side, against the links of the file (overlaps left aside)
        want = {(n, sd): set() for n in nodes for sd in (0, 1)}
        for a, ao, b, bo in links:
            (a_, sa), (b_, sb) = rgfa.side_pair(a, ao, b, bo)
            want[(a_, sa)].add((b_, sb))
            want[(b_, sb)].add((a_, sa))
        got = {}
        for n in nodes:
            nd = G.nodes.get(n)
            got[(n, 0)] = {(m, ms) for m, ms, ov in nd.start} if nd is not None else None
            got[(n, 1)] = {(m, ms) for m, ms, ov in nd.end} if nd is not None else None
        if got != want:
            k = next(x for x in want if got.get(x) != want[x])
            res.fail("C15/loaded-adjacency", f"{desc}: side {k} of the loaded graph lists {sorted(got[k]) if got[k] is not None else None}, the file's links give {sorted(want[k])}", case)
            return
    # components
    res.evaluations += 1
    try:
        got = {frozenset(c) for c in G.all_components()}
    except Exception as e:
        res.fail(f"C15/components-exception:{type(e).__name__}", f"{desc}: all_components raised {e}", case)
        return
    want = set(rgfa.components(adj))
    if got != want:
        res.fail("C15/components", f"{desc}: components {sorted(map(sorted, got))}, true components {sorted(map(sorted, want))}", case)
    simple_adj = {n: {m for m in adj[n] if m != n} for n in adj}
    for comp in want:
        if len(comp) < 1:
            continue
        key = (tuple(sorted(comp)), tuple(sorted((a, b) for a in comp for b in simple_adj[a] if a < b)))
        if oracle_cache is not None and key in oracle_cache:
            arts, blks = oracle_cache[key]
        else:
            arts = rgfa.articulation_points(simple_adj, comp)
            blks = rgfa.blocks(simple_adj, comp)
            if oracle_cache is not None:
                oracle_cache[key] = (arts, blks)
        if arts or any(len(b) >= 3 for b in blks):
            res.nt(fw.h64([sorted(nodes), sorted(links), sorted(comp)]))
        for start in sorted(comp):
            # dfs from every start
            res.evaluations += 1
            try:
                order = G.dfs(start)
            except Exception as e:
                res.fail(f"C15/dfs-exception:{type(e).__name__}", f"{desc}: dfs({start}) raised {e}", dict(case, start=start))
                continue
            if len(order) != len(set(order)) or set(order) != set(comp):
                res.fail("C15/dfs", f"{desc}: dfs({start}) = {order}, component is {sorted(comp)}", dict(case, start=start))
        if len(want) != 1:
            continue  # biccs is specified for connected graphs
        for root in sorted(comp):
            res.evaluations += 1
            rest = [n for n in sorted(nodes) if n != root]
            try:
                comps, ap = G.biccs(set_of_nodes=[root] + rest)
            except Exception as e:
                res.fail(f"C15/biccs-exception:{type(e).__name__}", f"{desc}: biccs from root {root} raised {type(e).__name__}: {e}", dict(case, root=root))
                continue
            gotb = collections.Counter(frozenset(c) for c in comps)
            wantb = collections.Counter(blks)
            if set(ap) != arts:
                res.fail("C15/articulation-points", f"{desc}: from root {root} articulation points {sorted(ap)}, true {sorted(arts)}", dict(case, root=root))
            if gotb != wantb:
                res.fail(
                    "C15/biconnected-components",
                    f"{desc}: from root {root} components {sorted(map(sorted, comps))}, true blocks {sorted(map(sorted, blks))}",
                    dict(case, root=root),
                )


def simple_graphs(names):
    pairs = list(itertools.combinations(names, 2))
    for mask in range(1 << len(pairs)):
        yield [pairs[i] for i in range(len(pairs)) if mask >> i & 1]


def labelled(edges, scheme):
    out = []
    for i, (a, b) in enumerate(edges):
        if scheme == 0:
            o = ("+", "+")
        elif scheme == 1:
            o = ORI[i % 4]
        else:
            o = ORI[(i * 3 + 1) % 4]
        out.append((a, o[0], b, o[1]))
    return out


def graphs_part(res, spec, tier):
    b = bounds(tier)
    gi = 0
    cache = {}
    for n in range(1, b["max_nodes"] + 1):
        names = [f"n{i}" for i in range(n)]
        for edges in simple_graphs(names):
            gi += 1
            if gi % spec["of"] != spec["shard"]:
                continue
            res.count("simple_graphs")
            for scheme in (0, 1, 2):
                links = labelled(edges, scheme)
                check_decomposition(res, names, links, f"graph {n} nodes scheme {scheme}", cache)
                if gi % 3 == 0:
                    # the same graph under vg-style numeric names whose concatenations collide ("1"+"12" = "11"+"2")
                    ren = dict(zip(names, NUMERIC_NAMES))
                    check_decomposition(res, [ren[x] for x in names], [(ren[a], ao, ren[b2], bo) for a, ao, b2, bo in links], f"graph {n} nodes scheme {scheme}, numeric names", None)
                    res.count("graphs_with_prefix_colliding_names")
            if edges:
                base = labelled(edges, 1)
                a, ao, b2, bo = base[0]
                # one parallel link (other orientation between the same two nodes) and self links on two nodes
                check_decomposition(res, names, base + [(a, "-" if ao == "+" else "+", b2, bo)], "with a parallel link", cache)
                check_decomposition(res, names, base + [(a, "+", a, "+"), (b2, "+", b2, "-")], "with self links", cache)
    # every orientation labelling on the small graphs
    for n in range(2, b["all_orientations_max_nodes"] + 1):
        names = [f"n{i}" for i in range(n)]
        pairs = list(itertools.combinations(names, 2))
        for assign in itertools.product(range(5), repeat=len(pairs)):
            gi += 1
            if gi % spec["of"] != spec["shard"]:
                continue
            links = [(a, ORI[k - 1][0], b2, ORI[k - 1][1]) for (a, b2), k in zip(pairs, assign) if k]
            res.count("orientation_labelled_graphs")
            check_decomposition(res, names, links, "orientation-labelled", cache)
            VIA_FILE["on"] = True
            try:
                check_decomposition(res, names, links, "orientation-labelled, loaded from a file with L lines first", cache)
            finally:
                VIA_FILE["on"] = False
    if spec["shard"] == 0:
        res.sample({"graph": {"nodes": ["n0", "n1", "n2", "n3"], "links": labelled([("n0", "n1"), ("n1", "n2"), ("n1", "n3"), ("n2", "n3")], 1)}, "checked": "all_components, dfs from every start, biccs from every root"})


# ----------------------------------------------------------------------------------------------
# (b) explicit-state search over edit histories

NUMERIC_NAMES = ["1", "11", "12", "2", "112", "21"]
NAMES = ["a", "b", "2"]  # one numeric name: the library accepts non-string ids and converts them


def adjacency_canon(G):
    return tuple((n, tuple(sorted(G.nodes[n].start)), tuple(sorted(G.nodes[n].end))) for n in sorted(G.nodes))


def _slots(obj):
    names = []
    for klass in type(obj).__mro__:
        for s_ in getattr(klass, "__slots__", ()):
            if s_ not in names:
                names.append(s_)
    names += [k for k in getattr(obj, "__dict__", {}) if k not in names]
    return names


def _val(v):
    if isinstance(v, (set, frozenset)):
        return tuple(sorted(map(repr, v)))
    if isinstance(v, dict):
        return tuple(sorted((repr(k), _val(x)) for k, x in v.items()))
    if isinstance(v, (list, tuple)):
        return tuple(_val(x) for x in v)
    return repr(v)


def canon(G):
    """canonical state of the real object: every attribute of the graph and of every node (adjacency, flags such as
    `visited`, and whatever caches a changed implementation may add), so that hidden state makes states distinct"""
    nodes = tuple((n, tuple((k, _val(getattr(G.nodes[n], k, None))) for k in _slots(G.nodes[n]))) for n in sorted(G.nodes))
    rest = tuple((k, _val(getattr(G, k, None))) for k in _slots(G) if k != "nodes")
    return (nodes, rest)


def model_canon(nodes, links):
    """what the adjacency has to look like for this set of nodes and links (side pairs with overlap 0)"""
    start = {n: set() for n in nodes}
    end = {n: set() for n in nodes}
    for (a, sa), (b, sb) in links:
        (end if sa == 1 else start)[a].add((b, sb, 0))
        (end if sb == 1 else start)[b].add((a, sa, 0))
    return tuple((n, tuple(sorted(start[n])), tuple(sorted(end[n]))) for n in sorted(nodes))


def ops_for(nodes):
    out = []
    for n in NAMES:
        if n not in nodes:
            out.append(("add_node", n))
        else:
            out.append(("add_node", n))  # adding a node that exists is documented as a no-op (warning)
        if n.isdigit():
            out.append(("add_node_int", n))  # the same id passed as an int, present or not
        if n in nodes and n == NAMES[1]:
            out.append(("add_node_seq", n))  # an existing (sequence-less) node added again, this time with a sequence
    present = sorted(nodes)
    for a in present:
        for b in present:
            for ao, bo in ORI:
                out.append(("add_edge", a, ao, b, bo))
    for n in present:
        out.append(("remove_node", n))
    # observations: they must not change what later operations see
    if present:
        out.append(("obs_components",))
        for n in present:
            out.append(("obs_dfs", n))
            out.append(("obs_biccs", n))
    return out


def observe(res, G, nodes, links, op, hist):
    """run one decomposition primitive on the real, history-built object and compare with the model of the current graph"""
    adj = {n: set() for n in nodes}
    for (a, sa), (b, sb) in links:
        adj[a].add(b)
        adj[b].add(a)
    simple = {n: {m for m in adj[n] if m != n} for n in adj}
    comps = set(rgfa.components(adj))
    case = {"history": [list(o) for o in hist]}
    try:
        if op[0] == "obs_components":
            got = {frozenset(c) for c in G.all_components()}
            if got != comps:
                res.fail("C15/components-after-history", f"after {hist}: all_components() = {sorted(map(sorted, got))}, true components {sorted(map(sorted, comps))}", case)
        elif op[0] == "obs_dfs":
            order = G.dfs(op[1])
            comp = next(c for c in comps if op[1] in c)
            if len(order) != len(set(order)) or set(order) != set(comp):
                res.fail("C15/dfs-after-history", f"after {hist}: dfs({op[1]}) = {order}, component is {sorted(comp)}", case)
        else:
            if len(comps) != 1:
                return
            root = op[1]
            got_c, got_a = G.biccs(set_of_nodes=[root] + [n for n in sorted(nodes) if n != root])
            arts = rgfa.articulation_points(simple)
            blks = rgfa.blocks(simple)
            if set(got_a) != arts or collections.Counter(frozenset(c) for c in got_c) != collections.Counter(blks):
                res.fail("C15/biccs-after-history", f"after {hist}: biccs from {root} = {sorted(map(sorted, got_c))} / {sorted(got_a)}, true blocks {sorted(map(sorted, blks))} / {sorted(arts)}", case)
    except Exception as e:
        res.fail(f"C15/observation-exception:{type(e).__name__}", f"after {hist}: {op} raised {type(e).__name__}: {e}", case)


def apply_real(G, op):
    if op[0].startswith("obs_"):
        return
    if op[0] == "add_node":
        G.add_node(op[1])
    elif op[0] == "add_node_int":
        G.add_node(int(op[1]))
    elif op[0] == "add_node_seq":
        G.add_node(op[1], seq="ACGT")
    elif op[0] == "add_edge":
        # '+ +' links are added with an optional field (as links read from a file are), the others without
        if (op[2], op[4]) == ("+", "+"):
            G.add_edge(op[1], op[2], op[3], op[4], 0, tags=["x1:i:1"])
        else:
            G.add_edge(op[1], op[2], op[3], op[4], 0)
    else:
        G.remove_node(op[1])


def apply_model(nodes, links, op):
    nodes, links = set(nodes), set(links)
    if op[0].startswith("obs_"):
        return frozenset(nodes), frozenset(links)
    if op[0] in ("add_node", "add_node_int", "add_node_seq"):
        nodes.add(op[1])
    elif op[0] == "add_edge":
        links.add(rgfa.side_pair(op[1], op[2], op[3], op[4]))
    else:
        nodes.discard(op[1])
        links = {l for l in links if l[0][0] != op[1] and l[1][0] != op[1]}
    return frozenset(nodes), frozenset(links)


SEEDS = {
    "empty": [],
    "path": [("add_node", "a"), ("add_node", "b"), ("add_node", "2"), ("add_edge", "a", "+", "b", "+"), ("add_edge", "b", "+", "2", "-")],
    "triangle": [("add_node", "a"), ("add_node", "b"), ("add_node", "2"), ("add_edge", "a", "+", "b", "+"), ("add_edge", "b", "+", "2", "+"), ("add_edge", "2", "+", "a", "+")],
    "selfloop": [("add_node", "a"), ("add_node", "b"), ("add_edge", "a", "+", "a", "+"), ("add_edge", "a", "+", "a", "-"), ("add_edge", "a", "-", "b", "+")],
    "parallel": [("add_node", "a"), ("add_node", "b"), ("add_edge", "a", "+", "b", "+"), ("add_edge", "a", "+", "b", "-"), ("add_edge", "a", "-", "b", "-")],
}


def invariants(res, G, nodes, links, hist, cache):
    case = {"history": [list(o) for o in hist]}
    # adjacency symmetric, nothing names an absent node
    for n, node in G.nodes.items():
        for side, entries in ((0, node.start), (1, node.end)):
            for m, ms, ov in entries:
                if m not in G.nodes:
                    res.fail("C15/dangling-reference", f"after {hist}: node {n} side {side} still refers to deleted node {m}", case)
                    return False
                other = G.nodes[m].start if ms == 0 else G.nodes[m].end
                if (n, side, ov) not in other:
                    res.fail("C15/asymmetric-adjacency", f"after {hist}: {n}.{side} lists ({m},{ms}) but {m}.{ms} does not list ({n},{side})", case)
                    return False
    if adjacency_canon(G) != model_canon(nodes, links):
        res.fail("C15/history-differs-from-direct-build", f"after {hist}: adjacency {adjacency_canon(G)} differs from the graph of the surviving nodes/links {model_canon(nodes, links)}", case)
        return False
    # is_equal_to a graph built directly from the surviving nodes and links
    direct = build_gfa(sorted(nodes), [(a, "+" if sa == 1 else "-", b, "+" if sb == 0 else "-") for (a, sa), (b, sb) in sorted(links)])
    if not G.is_equal_to(direct) or not direct.is_equal_to(G):
        res.fail("C15/not-equal-to-direct-build", f"after {hist}: is_equal_to(graph built from surviving nodes and links) is False", case)
        return False
    return True


def bfs_part(res, spec, tier):
    from gaftools.gfa import GFA

    b = bounds(tier)
    depth = b["bfs_depth"] if spec["seed"] == "empty" else b["bfs_depth_seeded"]
    G0 = GFA()
    nodes0, links0 = frozenset(), frozenset()
    hist0 = []
    for op in SEEDS[spec["seed"]]:
        apply_real(G0, op)
        nodes0, links0 = apply_model(nodes0, links0, op)
        hist0.append(op)
    cache = {}
    seen = {canon(G0)}
    frontier = collections.deque([(G0, nodes0, links0, hist0, 0)])
    invariants(res, G0, nodes0, links0, hist0, cache)
    transitions = 0
    maxd = 0
    stale = 0
    while frontier:
        G, nodes, links, hist, d = frontier.popleft()
        maxd = max(maxd, d)
        if d >= depth:
            continue
        for opi, op in enumerate(ops_for(nodes)):
            if d == 0 and opi % spec.get("of", 1) != spec.get("first", 0):
                continue  # another shard starts with this operation
            G2 = copy.deepcopy(G)
            h2 = hist + [op]
            if op[0].startswith("obs_"):
                observe(res, G2, nodes, links, op, h2)
                transitions += 1
                res.evaluations += 1
                k = canon(G2)
                if k != canon(G):
                    res.count("observations_that_changed_hidden_state")
                    if k not in seen:
                        seen.add(k)
                        frontier.append((G2, nodes, links, h2, d + 1))
                continue
            try:
                apply_real(G2, op)
            except Exception as e:
                res.fail(f"C15/operation-exception:{type(e).__name__}", f"{op} after {hist} raised {type(e).__name__}: {e}", {"history": [list(o) for o in h2]})
                continue
            n2, l2 = apply_model(nodes, links, op)
            transitions += 1
            res.evaluations += 1
            ok = invariants(res, G2, n2, l2, h2, cache)
            k = canon(G2)
            if k != canon(G):
                res.nt(fw.h64([spec["seed"], k]))
            if ok and k not in seen:
                seen.add(k)
                # decomposition primitives on every reached graph
                link_list = [(a, "+" if sa == 1 else "-", b2, "+" if sb == 0 else "-") for (a, sa), (b2, sb) in sorted(l2)]
                if n2:
                    check_decomposition(res, sorted(n2), link_list, f"graph reached by {h2}", cache)
                stale += sum(1 for e in G2.edge_tags if e[0] not in G2.nodes or e[2] not in G2.nodes)
                frontier.append((G2, n2, l2, h2, d + 1))
    for k in seen:
        res.seen("bfs_states", fw.h64(k))  # merged over the shards of one seed (their searches overlap)
    res.count("transitions", transitions)
    res.count("traces_validated_against_impl", transitions)
    res.count("stale_edge_tag_entries_seen(info)", stale)
    res.count("bfs_max_depth_" + spec["seed"], maxd)
    res.sample({"seed": spec["seed"], "seed_history": [list(o) for o in SEEDS[spec["seed"]]], "depth": depth, "states": len(seen), "transitions": transitions,
                "example_history": [list(o) for o in (SEEDS[spec["seed"]] + [("add_node", "2"), ("add_edge", "a", "+", "2", "-"), ("remove_node", "a")])[:8]]})


def run_shard(spec, tier, scratch):
    res = fw.ShardResult()
    VIA_FILE["dir"] = scratch
    if spec["part"] == "graphs":
        graphs_part(res, spec, tier)
    else:
        bfs_part(res, spec, tier)
    return res


def finalize(results, tier):
    st = {}
    for r in results:
        for k, v in r.get("stats", {}).items():
            st[k] = st.get(k, 0) + v
    states = set()
    for r in results:
        states.update(map(str, r.get("sets", {}).get("bfs_states", [])))
    return {"coverage": {"states": len(states), "transitions": st.get("transitions", 0), "traces_validated_against_impl": st.get("traces_validated_against_impl", 0)}}


def replay(case, scratch):
    from gaftools.gfa import GFA

    res = fw.ShardResult()
    if "history" in case:
        G = GFA()
        nodes, links = frozenset(), frozenset()
        hist = []
        for op in case["history"]:
            op = tuple(op)
            if op[0].startswith("obs_"):
                observe(res, G, nodes, links, op, hist + [op])
                hist.append(op)
                continue
            try:
                apply_real(G, op)
            except Exception as e:
                res.fail(f"C15/operation-exception:{type(e).__name__}", f"{op} raised {e}", case)
                return res.failures
            nodes, links = apply_model(nodes, links, op)
            hist.append(op)
            if not invariants(res, G, nodes, links, hist, {}):
                return res.failures
        return res.failures
    VIA_FILE["dir"], VIA_FILE["on"] = scratch, case.get("via_file") or False
    try:
        check_decomposition(res, case["nodes"], [tuple(l) for l in case["links"]], "replay")
    finally:
        VIA_FILE["on"] = False
    return res.failures
