"""C04 - view --node returns exactly the records touching the nodes."""

import os
import itertools

from mc import framework as fw
from mc import rgfa
from mc import gen
from mc import conv
from mc import viewidx as vi

ID = "C04"
LEVEL = "exploration"
TECHNIQUE = "bounded-exhaustive enumeration of (indexed GAF, node list, format, compression) queries through view.run against a model selection"
RULE = (
    "indexed GAFs: layouts (<=R reference segments x 6 haplotype patterns) x {complete, realistic} links x {unstable, stable} x "
    "record sets {all walks of <=L steps incl. walks revisiting a node; the walks avoiding one or two nodes, so that some nodes have "
    "no alignment} x {plain, 3-block BGZF}; queries: every single node, every ordered pair incl. (a,a), every triple over a 4-node "
    "subset, x {no --format, --format to the other coordinate system}; plus the no-selection pass-through. evaluations = view runs; "
    "non-trivial = queries whose expected selection is a non-empty proper subset or involves an unaligned node / a revisited node."
)
ASSUMPTIONS = [
    "the index used is the one written by the real `gaftools index` on the same file (C03 checks it)",
    "records carry clean optional fields (tp, NM, cg) so that tag-fidelity issues (C16) do not leak into this check",
    "'reports that nothing was found' is accepted as CommandLineError, or as no record printed together with a log record >= WARNING",
]
LEVEL_TEXT = (
    "Every node list up to the stated size is queried against every indexed file inside the bounds and compared with the model's "
    "selection (each record once, file order), including queries for nodes without alignments and records revisiting a node - "
    "exactly-once and no-extra-records are asserted, which the golden-file tests never do."
)
LEVEL_NOTE = "Trusts mc/viewidx.py:traverses for the selection and gaftools' own whole-file conversion (checked by C01/C02) for the --format comparison."
DESIGN_REF = "DESIGN.md §4 C04"
EXHAUSTIVE = True


def bounds(tier):
    if tier == "quick":
        return {"max_ref_segments": 2, "max_steps": 2}
    return {"max_ref_segments": 3, "max_steps": 3}


def plan(tier, seed):
    b = bounds(tier)
    specs = []
    for L in gen.layouts(b["max_ref_segments"]):
        for lm in ("complete", "realistic"):
            specs.append({"layout": conv.layout_desc(L), "linkmode": lm})
    specs.sort(key=lambda s: -(len(s["layout"]["ref_lens"]) + len(gen.hap_segments(s["layout"]["pattern"]))))
    return [{"many": 9001}] + specs


BGZF3 = "bgzf3"


def write_variant(path, text, variant):
    if variant == BGZF3:
        n = len(text.encode())
        vi.write_gaf(path, text, ("bgzf", [n // 3, (2 * n) // 3], [], True))
    else:
        vi.write_gaf(path, text, ("plain",))


def record_sets(g, L, maxlen):
    allr = [(r, st) for r, st in vi.walk_records(g, L, maxlen)]
    ids = L.ids()
    avoid = {ids[-1]}
    if len([s for s in L.segs if s[1] == "chr1"]) >= 3:
        avoid.add(ids[1])
    part = [(r, st) for r, st in allr if not any(n in avoid for o, n in st)]
    out = [("all", [r for r, st in allr])]
    if part and len(part) != len(allr):
        out.append(("partial", [r for r, st in part]))
    # with realistic links the file with fewer aligned nodes comes first: a later file in the same process then has
    # aligned nodes that an earlier one lacked (and the other way round for the complete link set)
    if len(out) == 2 and len(g.links) < 3 * len(g.segs):
        out.reverse()
    return out


def node_lists(ids):
    for a in ids:
        yield [a]
    for a in ids:
        for b in ids:
            yield [a, b]
    sub = ids[:4]
    for t in itertools.product(sub, repeat=3):
        if len(set(t)) > 1 or len(ids) < 2:
            yield list(t)


class Prepared:
    """one indexed GAF ready for queries"""

    def __init__(self, scratch, g, L, lm, stable, setname, recs, variant, tag):
        self.g, self.L, self.lm, self.stable, self.setname, self.recs, self.variant = g, L, lm, stable, setname, recs, variant
        self.gfa_path = os.path.join(scratch, "g.gfa")
        # line order of the graph file is part of the input: the 'partial' files use L lines first and S lines in
        # reverse (descending SO) order
        from mc.props import c03

        fw.write_text(self.gfa_path, c03.gfa_text(g, "rev" if setname == "partial" else "so"))
        self.text = "".join(r.line() + "\n" for r in recs)
        self.gaf_path = os.path.join(scratch, f"{tag}.gaf" + (".gz" if variant == BGZF3 else ""))
        write_variant(self.gaf_path, self.text, variant)
        self.index_out, self.ind = vi.run_index(self.gaf_path, self.gfa_path)
        self.fmt = "unstable" if stable else "stable"
        self.converted = None
        self.touch = {n: [i for i, r in enumerate(recs) if vi.traverses(g, r, n)] for n in g.segs}
        self.scratch = scratch

    def whole_file_conversion(self):
        if self.converted is None:
            out, lines = conv.view_convert(self.scratch, self.text, self.gfa_path, self.fmt, "whole")
            self.converted = lines if out.kind == "ok" and len(lines) == len(self.recs) else False
        return self.converted

    def case(self, query, fmt):
        return {
            "layout": conv.layout_desc(self.L),
            "linkmode": self.lm,
            "stable": self.stable,
            "records": [r.line() for r in self.recs],
            "variant": self.variant,
            "query": query,
            "format": fmt,
        }


def run_view(P, nodes=None, regions=None, fmt=None, trigger_s=1.0, budget=300_000):
    from gaftools.cli import view

    outp = os.path.join(P.scratch, "view.out")
    if os.path.exists(outp):
        os.remove(outp)
    kw = dict(gaf_path=P.gaf_path, output=outp, nodes=list(nodes or []), regions=list(regions or []), format=fmt)
    if fmt:
        kw["gfa"] = P.gfa_path
    out = fw.guarded(view.run, _trigger_s=trigger_s, _budget=budget, **kw)
    lines = []
    if os.path.exists(outp):
        lines = open(outp).read().split("\n")
        if lines and lines[-1] == "":
            lines = lines[:-1]
    return out, lines


def judge_selection(res, P, prop, what, query, fmt, out, lines, want_idx):
    """common oracle for --node / --region: want_idx = indices (file order) of the records that must be printed"""
    res.next_call()
    case = P.case(query, fmt)
    if out.kind == "nonterm":
        res.fail(f"{prop}/does-not-terminate", f"{what}: the query does not terminate", case)
        return
    if out.kind in ("exc", "exit"):
        res.fail(f"{prop}/internal-error:{out.sig()}", f"{what}: {out.brief()} (expected {len(want_idx)} record(s))", case)
        return
    if not want_idx:
        if out.kind == "cle":
            return
        warned = any(lv >= 30 for lv, msg, broken in out.logs)
        if lines or not warned:
            res.fail(f"{prop}/nothing-found-not-reported", f"{what}: nothing matches, but the command printed {len(lines)} record(s) and reported nothing", case)
        return
    if out.kind == "cle":
        res.fail(f"{prop}/spurious-not-found", f"{what}: {len(want_idx)} record(s) match but the command said: {out.msg}", case)
        return
    if fmt:
        conv_lines = P.whole_file_conversion()
        if conv_lines is False:
            return  # whole-file conversion broken: C01/C02's business
        exp = [conv_lines[i] for i in want_idx]
        if lines != exp:
            res.fail(f"{prop}/{classify_diff(lines, exp)}", f"{what} with --format {fmt}: got {summ(lines)}, expected {summ(exp)}", case)
        return
    exp = [P.recs[i] for i in want_idx]
    got = []
    for l in lines:
        try:
            got.append(rgfa.Rec.parse(l))
        except Exception:
            got.append(None)
    gq = [r.qname if r else None for r in got]
    eq = [r.qname for r in exp]
    if gq != eq:
        res.fail(f"{prop}/{classify_diff(gq, eq)}", f"{what}: got records {gq[:8]}, expected {eq[:8]}", case)
        return
    for a, b in zip(got, exp):
        if a.cols() != b.cols() or a.opt != b.opt:
            res.fail(f"{prop}/content-changed", f"{what}: record {b.line()!r} printed as {a.line()!r}", case)
            return


def summ(lines):
    return [l.split("\t")[0] for l in lines[:8]]


def classify_diff(got, exp):
    if len(got) != len(set(got)):
        return "duplicate-records"
    sg, se = set(got), set(exp)
    if se - sg:
        return "missing-records"
    if sg - se:
        return "extra-records"
    return "wrong-order"


def node_queries(res, P, prop="C04"):
    ids = list(P.g.segs)
    for nl in node_lists(ids):
        want = sorted({i for n in nl for i in P.touch[n]})
        for fmt in (None, P.fmt):
            out, lines = run_view(P, nodes=nl, fmt=fmt)
            res.evaluations += 1
            unaligned = any(not P.touch[n] for n in nl)
            revisit = any(sum(1 for o, x in rgfa.parse_steps(P.recs[i].path) if x in nl) > 1 for i in want) if not P.stable else False
            if (0 < len(want) < len(P.recs)) or unaligned or revisit:
                res.nt(fw.h64([P.L.name, P.lm, P.stable, P.setname, P.variant, nl, fmt]))
            if unaligned:
                res.count("queries_with_unaligned_node")
            if revisit:
                res.count("queries_with_revisited_node")
            if not want:
                res.count("queries_matching_nothing")
            judge_selection(res, P, prop, f"[{P.L.name}, {P.lm}, {'stable' if P.stable else 'unstable'}, {P.setname}, {P.variant}] view -n {' -n '.join(nl)}", {"nodes": nl}, fmt, out, lines, want)


def passthrough(res, P):
    out, lines = run_view(P)
    res.evaluations += 1
    if out.kind != "ok" or lines != [r.line() for r in P.recs]:
        res.fail("C04/passthrough", f"view without selection/format does not reproduce the file: {out.brief()}, {len(lines)} of {len(P.recs)} lines", P.case({"nodes": []}, None))


def prepared_files(scratch, L, lm, maxlen, res, prop):
    g = vi.graph_for(L, lm)
    if lm == "realistic":
        maxlen = max(maxlen, 3)  # few walks exist with realistic links: three-step walks are affordable in quick mode too
    for setname, urecs in record_sets(g, L, maxlen):
        srecs = [rgfa.to_stable_model(g, r) for r in urecs]
        for stable, recs in ((False, urecs), (True, srecs)):
            for variant in ("plain", BGZF3):
                P = Prepared(scratch, g, L, lm, stable, setname, recs, variant, "q")
                res.count("indexed_files")
                if P.ind is None:
                    res.count("index_failed")
                    continue  # C03 reports this
                yield P


def printed(r):
    """the record as the parser keeps it: gaftools reads the query name up to its first blank (as C03 and C16 assume too)"""
    return rgfa.Rec(r.qname.split(" ")[0], *r.cols()[1:], opt=list(r.opt)).line()


def many_records(res, scratch, n):
    """one node selected by thousands of records (beyond any plausible output batching size), plain and converted"""
    L = gen.Layout((2, 1), "separated2", 1)
    g = vi.graph_for(L, "realistic")
    base = [r for r, st in vi.walk_records(g, L, 2) if vi.traverses(g, r, "s1")]
    urecs = []
    for i in range(n):
        r = base[i % len(base)]
        # every seventh read name carries blanks (GraphAligner keeps the FASTA description): columns are tab-separated only
        urecs.append(rgfa.Rec(f"m{i} len=9 ch=3" if i % 7 == 3 else f"m{i}", *r.cols()[1:], opt=list(r.opt)))
    # one record longer than 64 KiB (a long read with a base-level difference string): no length limit applies to a GAF line
    urecs[11] = rgfa.Rec(urecs[11].qname, *urecs[11].cols()[1:], opt=list(urecs[11].opt) + ["zd:Z:" + "ACGT" * 17_500])
    for stable in (False, True):
        recs = [rgfa.to_stable_model(g, r) for r in urecs] if stable else urecs
        P = Prepared(scratch, g, L, "realistic", stable, "many", recs, "plain", "many")
        if P.ind is None:
            res.fail("C04/index-failed", f"index failed on a file of {n} records: {P.index_out.brief()}", {"many": n})
            continue
        for fmt in (None, P.fmt):
            # thousands of records legitimately cost more than the small-file budget: on a loaded machine the 1 s trigger fired and
            # the traced repeat then ran out of 300 000 line events (a false "does not terminate"), so this part has its own budget
            out, lines = run_view(P, nodes=["s1"], fmt=fmt, trigger_s=60.0, budget=fw.LINE_BUDGET)
            res.evaluations += 1
            res.nt(fw.h64(["many", n, stable, fmt]))
            res.count("queries_selecting_thousands_of_records")
            want = [recs[i] for i in P.touch["s1"]]  # (a stable record that collapsed to a contig interval may lie on s2 only)
            if out.kind != "ok" or len(lines) != len(want):
                res.fail("C04/many-records:count", f"view -n s1{' -f ' + fmt if fmt else ''} on a {'stable' if stable else 'unstable'} file of {n} records, {len(want)} of which traverse s1: {out.brief()}, {len(lines)} lines printed", {"many": n})
            elif fmt is None and lines != [printed(r) for r in want]:
                k = next(i for i, (a, b) in enumerate(zip(lines, want)) if a != printed(b))
                res.fail("C04/many-records:content", f"view -n s1 on a file of {n} records: line {k + 1} differs from the {k + 1}-th record that traverses s1", {"many": n})


def run_shard(spec, tier, scratch):
    res = fw.ShardResult().begin(spec, tier)
    b = bounds(tier)
    if spec.get("many"):
        many_records(res, scratch, spec["many"])
        return res
    L = conv.layout_from(spec["layout"])
    for P in prepared_files(scratch, L, spec["linkmode"], b["max_steps"], res, "C04"):
        node_queries(res, P)
        passthrough(res, P)
        if P.setname == "partial" and not P.stable and P.variant == "plain":
            res.sample({"layout": L.name, "links": P.lm, "records": [r.line() for r in P.recs[:3]] + ["..."], "n_records": len(P.recs),
                        "unaligned_nodes": [n for n in P.g.segs if not P.touch[n]], "example_query": ["-n", list(P.g.segs)[0], "-n", list(P.g.segs)[-1]]})
    return res


def replay(case, scratch, prop="C04"):
    res = fw.ShardResult()
    if case.get("many"):
        many_records(res, scratch, case["many"])
        return res.failures
    L = conv.layout_from(case["layout"])
    g = vi.graph_for(L, case["linkmode"])
    recs = [rgfa.Rec.parse(l) for l in case["records"]]
    P = Prepared(scratch, g, L, case["linkmode"], case["stable"], "replay", recs, case["variant"], "rp")
    if P.ind is None:
        res.fail(f"{prop}/index-failed", f"index failed: {P.index_out.brief()}", case)
        return res.failures
    q = case["query"]
    if "nodes" in q:
        if not q["nodes"]:
            passthrough(res, P)
            return res.failures
        want = sorted({i for n in q["nodes"] for i in P.touch[n]})
        out, lines = run_view(P, nodes=q["nodes"], fmt=case["format"])
        judge_selection(res, P, prop, f"view -n {q['nodes']}", q, case["format"], out, lines, want)
    return res.failures
