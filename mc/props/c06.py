"""C06 - order_gfa assigns BO/NO tags that encode the bubble chain."""

import itertools

from mc import framework as fw
from mc import rgfa
from mc import gen
from mc import ordercommon as oc

ID = "C06"
LEVEL = "exploration"
TECHNIQUE = "bounded-exhaustive enumeration of (bubble chain, link declaration, line order, DFS root, component report order, hash seed, stale tags, chromosome order) through run_order_gfa against the block-cut-chain model"
RULE = (
    "chains: end block, scaffold, (block, scaffold)^k, end block with block in {plain link, SNP bubble, insertion, deletion, tri-allelic, "
    "two-segment allele, nested bubble, inversion links}, k<=K, two end styles, node ids whose lexicographic and numeric order differ; "
    "links declared forward / from the other end / alternating; around each base run one dimension is varied exhaustively: every DFS root "
    "x both component report orders (harness-owned wrapper around GFA.biccs), the line-order family (all permutations for <=6 lines, else "
    "identity, reversal, every rotation, L-before-S, interleaved), stale BO/NO tags, PYTHONHASHSEED in the tier's list; two- and three-"
    "chromosome graphs under every --chromosome_order permutation. evaluations = order_gfa runs; non-trivial = runs on chains with >=1 bubble "
    "or with a non-default environment choice."
)
ASSUMPTIONS = [
    "relations are judged, not absolute BO values (the guide says 1..N, the code starts at 0; the property says 'increasing')",
    "set-iteration order is owned through the biccs wrapper (root, report order) plus the listed hash seeds, not through all 2^32 seeds",
    "expected chains come from the generator's construction, validated against the brute-force block-cut model for every chain with <=2 blocks in the self-test",
]
LEVEL_TEXT = (
    "Every chain shape up to the bound is ordered by the real command under every DFS start and line order in the stated family and "
    "compared with the block-cut chain computed independently; the 'reverse the traversal if it ran backwards' branch, multi-chromosome "
    "numbering and line-order independence are all inside the enumerated space."
)
LEVEL_NOTE = "Trusts the brute-force articulation-point / block oracles of mc/rgfa.py and the chain generator (cross-checked against each other on every run)."
DESIGN_REF = "DESIGN.md §4 C06"
EXHAUSTIVE = True
HASHSEEDS = {"quick": [0, 1], "thorough": [0, 1, 2, 3]}
ENDS = [("tip", "tip"), ("open", "open"), ("tip", "open")]


def bounds(tier):
    return {"max_blocks": 2 if tier == "quick" else 3, "hashseeds": HASHSEEDS[tier]}


def chain_specs(tier):
    b = bounds(tier)
    out = [{"blocks": [], "ends": ["tip", "tip"]}]
    # naming and size variants on a few chains: vg-style numeric ids, names with non-word characters, a haplotype allele
    # longer than the whole reference of the component
    for bl in ([], ["snp"], ["snp", "link"], ["insertion", "deletion"]):
        for kw in ({"id_style": "numeric"}, {"id_style": "odd"}, {"long_hap": True}, {"self_links": True}):
            out.append({"blocks": bl, "ends": ["tip", "open"] if bl else ["tip", "tip"], "kw": kw})
    for bl in gen.chains(b["max_blocks"]):
        for e in ENDS if len(bl) <= 1 else ENDS[:2] if len(bl) == 2 else ENDS[:1]:
            out.append({"blocks": bl, "ends": list(e)})
    return out


def plan(tier, seed):
    specs = []
    cs = chain_specs(tier)
    for hs in HASHSEEDS[tier]:
        nsh = 24 if tier == "quick" else 96
        for i in range(nsh):
            specs.append({"hashseed": hs, "shard": i, "of": nsh, "part": "single"})
        specs.append({"hashseed": hs, "part": "multi"})
    specs[0]["selftest"] = True
    return specs


def selftest():
    for bl in gen.chains(2):
        for e in ENDS[:2]:
            c = gen.Chain(bl, ends=e)
            if gen.chain_order_by_model(c.g) != c.order:
                raise fw.HarnessError(f"chain generator and brute-force block-cut model disagree on {bl} {e}")


def case_of(text, chrom_order, root, flip, by_chrom=True):
    return {"gfa": text, "chromosome_order": chrom_order, "root": root, "flip": flip, "by_chrom": by_chrom}


def judge_run(res, scratch, text, chains, chrom_order, root, flip, what, base_map=None, base_text=None, by_chrom=False, model_text=None):
    """run order_gfa, judge every requested chromosome, return the (node -> BO,NO) map or None"""
    run = oc.run_order(scratch, text, chrom_order, by_chrom=by_chrom, root=root, flip=flip)
    res.evaluations += 1
    import os

    case = case_of(text, chrom_order, root, flip, by_chrom)
    case["hashseed"] = int(os.environ.get("PYTHONHASHSEED", "0"))
    if model_text is not None:
        case["model_gfa"] = model_text  # the graph the expectation is computed from (the input proper lacks tags the model needs)
    if base_map is not None:
        case["base_gfa"] = base_text if base_text is not None else text
    def is_single(c):
        return sum(1 for k, x in c.order if k == "s") == 1

    requested = [c for c in chains if c.chrom in chrom_order.split(",")]
    pre = "C06/single-scaffold:" if requested and all(is_single(c) for c in requested) else "C06/"
    if run.outcome.kind != "ok":
        res.fail(f"{pre}order_gfa-failed:{run.outcome.sig()}", f"{what}: {run.outcome.brief()}", case)
        return None
    if by_chrom:
        # one file per chromosome: the tags of all of them together
        tags = {}
        for c in requested:
            t = run.gfa(c.chrom)
            if t is None:
                res.fail(f"{pre}no-output", f"{what}: no GFA written for {c.chrom} ({run.files})", case)
                return None
            tags.update(oc.bo_no_map(t))
    else:
        out = run.gfa("complete")
        if out is None:
            res.fail(f"{pre}no-output", f"{what}: no complete GFA written ({run.files})", case)
            return None
        tags = oc.bo_no_map(out)
    ranges = {}
    for c in chains:
        if c.chrom not in chrom_order.split(","):
            continue
        cpre = "C06/single-scaffold:" if is_single(c) else "C06/"
        for kind, text_ in oc.judge_chain_tags(tags, c.order):
            res.fail(f"{cpre}{kind}", f"{what} [{c.chrom}: {'-'.join(c.blocks) or 'no block'}; ends {c.ends}]: {text_}", case)
        bos = [tags[n][0] for n in c.g.segs if tags.get(n, (None,))[0] is not None]
        if bos:
            ranges[c.chrom] = (min(bos), max(bos))
    req = [c for c in chrom_order.split(",") if c in ranges]
    for a, b in zip(req, req[1:]):
        if not ranges[a][1] < ranges[b][0]:
            res.fail("C06/chromosome-ranges", f"{what}: BO range of {a} {ranges[a]} is not entirely below that of {b} {ranges[b]} (requested order {chrom_order})", case)
    if base_map is not None and tags != base_map:
        diff = [n for n in base_map if tags.get(n) != base_map[n]][:4]
        owners = [c for c in chains if any(n in c.g.segs for n in diff)]
        pre = "C06/single-scaffold:" if owners and all(is_single(c) for c in owners) else "C06/"
        res.fail(f"{pre}assignment-depends-on-environment", f"{what}: BO/NO of {diff} differ from the base run: {[(n, base_map[n], tags.get(n)) for n in diff]}", case)
    return tags


def single_chain(res, scratch, spec, decl):
    c = gen.Chain(spec["blocks"], decl=decl, ends=tuple(spec["ends"]), **spec.get("kw", {}))
    g = c.g
    text = g.text()
    name = f"{'-'.join(spec['blocks']) or 'no-block'}|{'/'.join(spec['ends'])}|{decl}" + (f"|{spec['kw']}" if spec.get("kw") else "")
    base = judge_run(res, scratch, text, [c], "chr1", 0, False, f"[{name}] base run")
    if spec["blocks"]:
        res.nt(fw.h64(["base", name]))
    n = len(g.segs)
    for root in range(n):
        for flip in (False, True):
            if root == 0 and not flip:
                continue
            judge_run(res, scratch, text, [c], "chr1", root, flip, f"[{name}] DFS root #{root}, components {'reversed' if flip else 'as found'}", base)
            res.nt(fw.h64(["root", name, root, flip]))
            res.count("runs_varying_dfs_root")
    lines = g.lines()
    for order in gen.line_orders(len(lines), len(g.segs)):
        if order == list(range(len(lines))):
            continue
        t = "".join(lines[i] + "\n" for i in order)
        judge_run(res, scratch, t, [c], "chr1", None, False, f"[{name}] line order {order[:6]}...", base, text)
        res.nt(fw.h64(["order", name, order]))
        res.count("runs_varying_line_order")
    judge_run(res, scratch, oc.stale_tagged(g).text(), [c], "chr1", None, False, f"[{name}] stale BO/NO tags in the input", base, text)
    res.count("runs_with_stale_tags")
    return c, base


def multi_chrom(res, scratch, tier):
    firsts = [["snp"], ["insertion", "link"], ["nested"], []]
    # the second chromosome is a PanSN name whose last field is the first chromosome's name
    second = gen.Chain(["deletion"], chrom="HG002#2#chr1", id_base=40, hap="hB#1#c", decl="rev")
    third = gen.Chain(["triallelic"], chrom="hg38:chrX", id_base=70, hap="hC#1#c", decl="alt", ends=("open", "tip"))
    class OneNode:
        """a chromosome that is a single segment (e.g. chrM): one chain element, a scaffold node"""

        chrom, blocks, ends = "chrM", ["single-segment"], ("-", "-")

        def __init__(self):
            self.g = rgfa.Graph()
            self.g.add_seg("m1", "ACGTACGT", [("LN", "i", "8"), ("SN", "Z", "chrM"), ("SO", "i", "0"), ("SR", "i", "0")])
            self.order = [("s", "m1")]

    single = OneNode()
    for bl in firsts:
        c1 = gen.Chain(bl, chrom="chr1", decl="alt")
        for chains in ([c1, second], [c1, second, third], [c1, single, second]):
            g = gen.merge_graphs([c.g for c in chains])
            names = [c.chrom for c in chains]
            for perm in itertools.permutations(names):
                for k in range(1, len(perm) + 1):
                    req = ",".join(perm[:k])
                    for root, flip in ((0, False), (3, True), (None, False)):
                        judge_run(res, scratch, g.text(), chains, req, root, flip, f"[{'+'.join('-'.join(c.blocks) or 'no-block' for c in chains)}] --chromosome_order {req}")
                        res.nt(fw.h64(["multi", bl, req, root, flip]))
                        res.count("multi_chromosome_runs")
                    # the same request with --by-chrom: the per-chromosome files together carry the same disjoint ranges
                    judge_run(res, scratch, g.text(), chains, req, None, False, f"[{'+'.join('-'.join(c.blocks) or 'no-block' for c in chains)}] --by-chrom --chromosome_order {req}", by_chrom=True)
                    res.count("multi_chromosome_runs_by_chrom")
            # S and L lines of the chromosomes interleaved
            lines = g.lines()
            t = "".join(lines[i] + "\n" for i in list(range(len(lines)))[::-1])
            judge_run(res, scratch, t, chains, ",".join(names), None, False, "multi-chromosome, reversed line order")
            # the same graph without SR tags (the guide asks for SN and SO only)
            import re as _re

            judge_run(res, scratch, _re.sub(r"\tSR:i:\d+", "", g.text()), chains, ",".join(names), None, False, "multi-chromosome, no SR tags", model_text=g.text())
            # L lines first, S lines after them, and no newline after the last (S) line
            t2 = "".join(x + "\n" for x in [l for l in lines if l.startswith("L")] + [l for l in lines if not l.startswith("L")])[:-1]
            judge_run(res, scratch, t2, chains, ",".join(names), None, False, "multi-chromosome, L lines first, no final newline")
    # two runs into the same output directory with different chromosome orders (complete file mode): the second result
    # must be that of the second request only
    a_ = gen.Chain(["snp"], chrom="chr1", decl="alt")
    b_ = gen.Chain(["deletion"], chrom="chr2", id_base=40, hap="hB#1#c", decl="rev")
    gab = gen.merge_graphs([a_.g, b_.g])
    oc.run_order(scratch, gab.text(), "chr1,chr2", by_chrom=False, tag="twice")
    run2 = oc.run_order(scratch, gab.text(), "chr2,chr1", by_chrom=False, tag="twice", keep_outdir=True)
    res.evaluations += 1
    res.count("second_run_into_same_outdir")
    case2 = {"gfa": gab.text(), "chromosome_order": "chr2,chr1", "root": None, "flip": False, "by_chrom": False, "hashseed": 0, "after_run_with_order": "chr1,chr2"}
    t2 = run2.gfa("complete") if run2.outcome.kind == "ok" else None
    if t2 is None:
        res.fail(f"C06/second-run-failed:{run2.outcome.sig()}", f"second run into the same directory: {run2.outcome.brief()}", case2)
    else:
        slines = [l for l in t2.split("\n") if l.startswith("S")]
        tags2 = oc.bo_no_map(t2)
        if len(slines) != len(gab.segs):
            res.fail("C06/second-run-duplicates", f"after a second run into the same directory the complete file lists {len(slines)} S lines for {len(gab.segs)} segments", case2)
        else:
            for c in (a_, b_):
                for kind, text_ in oc.judge_chain_tags(tags2, c.order):
                    res.fail(f"C06/second-run:{kind}", f"second run into the same directory [{c.chrom}]: {text_}", case2)
            if not max(tags2[n][0] for n in b_.g.segs) < min(tags2[n][0] for n in a_.g.segs):
                res.fail("C06/second-run:chromosome-ranges", "second run (chr2,chr1) into the same directory: chr2 is not numbered before chr1", case2)
    # one long chain (320 blocks, about 1000 segments): sizes beyond any small internal threshold
    long_blocks = (gen.BLOCKS * 40)
    lc = gen.Chain(long_blocks, chrom="chr1", decl="alt")
    for root, flip in ((0, False), (501, True), (None, False)):
        judge_run(res, scratch, lc.g.text(), [lc], "chr1", root, flip, f"[chain of {len(long_blocks)} blocks, {len(lc.g.segs)} segments]")
        res.count("long_chain_runs")
    lines = lc.g.lines()
    judge_run(res, scratch, "".join(l + "\n" for l in lines[::-1]), [lc], "chr1", None, False, "[long chain, reversed line order]")
    # no --chromosome_order: the documented default chr1, ..., chr22, chrX, chrY, chrM applies (and requires exactly these)
    names = [f"chr{i}" for i in range(1, 23)] + ["chrX", "chrY", "chrM"]
    comps = []
    for i, nm in enumerate(names):
        if nm in ("chr1", "chrX"):
            comps.append(gen.Chain(["snp"] if nm == "chr1" else ["deletion"], chrom=nm, id_base=200 + 20 * i, hap=f"h{i}#1#c", decl="alt"))
        else:
            o = OneNode()
            o.chrom = nm
            o.g = rgfa.Graph()
            o.g.add_seg(f"m{i}", "ACGTAC", [("LN", "i", "6"), ("SN", "Z", nm), ("SO", "i", "0"), ("SR", "i", "0")])
            o.order = [("s", f"m{i}")]
            comps.append(o)
    g25 = gen.merge_graphs([c.g for c in comps[::-1]])  # file order is the reverse of the documented order
    run = oc.run_order(scratch, g25.text(), "", by_chrom=False)
    res.evaluations += 1
    res.count("default_chromosome_order_runs")
    case25 = {"gfa": g25.text(), "chromosome_order": "", "root": None, "flip": False, "by_chrom": False, "hashseed": 0}
    if run.outcome.kind != "ok" or run.gfa("complete") is None:
        res.fail(f"C06/default-order-failed:{run.outcome.sig()}", f"default chromosome order on a graph with exactly chr1..chr22,chrX,chrY,chrM: {run.outcome.brief()}", case25)
    else:
        tags = oc.bo_no_map(run.gfa("complete"))
        prev = None
        for c in comps:
            bos = [tags[n][0] for n in c.g.segs if tags.get(n, (None,))[0] is not None]
            if len(bos) != len(c.g.segs):
                res.fail("C06/default-order-untagged", f"default chromosome order: {c.chrom} has untagged nodes", case25)
                break
            if prev is not None and not prev[1] < min(bos):
                res.fail("C06/default-chromosome-order", f"default chromosome order: the BO range of {c.chrom} {(min(bos), max(bos))} does not follow that of {prev[0]} (..{prev[1]}); documented order chr1..chr22, chrX, chrY, chrM", case25)
                break
            prev = (c.chrom, max(bos))
    res.sample({"chromosomes": ["chr1", "HG002#2#chr1", "hg38:chrX", "chrM"], "chain_chr1": firsts[1], "requests": ["chr1", "chr2,chr1", "chrX,chr1,chr2", "(default order on 25 chromosomes)"]})


def run_shard(spec, tier, scratch):
    res = fw.ShardResult()
    if spec.get("selftest"):
        selftest()
    if spec["part"] == "multi":
        multi_chrom(res, scratch, tier)
        return res
    i = 0
    for cs in chain_specs(tier):
        for decl in ("fwd", "rev", "alt"):
            i += 1
            if i % spec["of"] != spec["shard"]:
                continue
            c, base = single_chain(res, scratch, cs, decl)
            if base is not None and spec["shard"] == 1:
                res.sample({"chain": cs, "declaration": decl, "gfa": c.g.lines()[:6] + ["..."], "expected_chain": [[k, sorted(x) if k == "b" else x] for k, x in c.order], "assignment": base})
    return res


def replay(case, scratch):
    res = fw.ShardResult()
    g = rgfa.Graph.parse(case.get("model_gfa") or case["gfa"])
    if case["chromosome_order"] == "" or case.get("after_run_with_order"):
        multi_chrom(res, scratch, "quick")
        return [f for f in res.failures if f["case"].get("chromosome_order") == "" or f["case"].get("after_run_with_order")]
    # rebuild expectations from the graph itself (brute-force model), per chromosome
    chains = []
    adj = g.adjacency()
    for comp in rgfa.components(adj):
        sub = rgfa.Graph()
        for n in g.segs:
            if n in comp:
                sub.segs[n] = g.segs[n]
        sub.links = [l for l in g.links if l.a in comp and l.b in comp]
        order = gen.chain_order_by_model(sub) if len(sub.segs) > 1 else [("s", next(iter(sub.segs)))]
        names = [s.SN for s in sub.segs.values() if s.SR == 0]

        class C:
            pass

        c = C()
        c.g, c.order, c.chrom, c.blocks, c.ends = sub, order or [], max(set(names), key=names.count) if names else "?", ["(from replay)"], ("?", "?")
        chains.append(c)
    base = None
    if case.get("base_gfa"):
        tmp = fw.ShardResult()
        base = judge_run(tmp, scratch, case["base_gfa"], chains, case["chromosome_order"], 0, False, "replay base run")
    judge_run(res, scratch, case["gfa"], chains, case["chromosome_order"], case["root"], case["flip"], "replay", base, case.get("base_gfa"), by_chrom=bool(case.get("by_chrom")))
    return res.failures
