"""C20 - phase annotates every record without altering it."""

import os
import itertools

from mc import framework as fw
from mc import rgfa

ID = "C20"
LEVEL = "exploration"
TECHNIQUE = "bounded-exhaustive enumeration of (GAF file, haplotag TSV) pairs through phase.run against the line grammar and the TSV contents"
RULE = (
    "record alphabet: strand in {+,-} x path in {unstable walk, stable intervals, bare contig} x optional fields in {none, cg only, tp + cg, "
    "tp + NM + cg with cg in the middle, a Z value with ':' '%' and a space} over reads r1, r2 (16 shapes per read); every file of <=N records (N=2 quick, 3 thorough); TSV: "
    "every assignment of {H1, H2, none, missing from the TSV, listed twice} to the two reads, with and without the whatshap header line. "
    "evaluations = phase runs; non-trivial = files with >=2 records or a '-' strand or optional fields."
)
ASSUMPTIONS = [
    "the output is read from the -o file (the property's observation point); running without -o is not part of the statement",
    "the position of the ps/ht fields among the optional fields is not constrained; the other fields must keep their order and bytes",
    "ps:Z must contain the contig and the phase set of the TSV for a phased read",
    "a read name that carries a comment after a blank may come out cut at that blank (documented behaviour of the GAF parser); the haplotag table lists the bare id",
]
LEVEL_TEXT = (
    "The subcommand has no test at all. Every record shape x TSV state combination up to the bound is run through the real command and "
    "each output line is checked against the GAF line grammar (12 columns, then TAG:TYPE:VALUE fields, no empty field, newline terminated) "
    "and against the input record and the TSV."
)
LEVEL_NOTE = "Needs no model beyond the line grammar and a dictionary of the TSV."
DESIGN_REF = "DESIGN.md §4 C20"
EXHAUSTIVE = True
NSHARD = {"quick": 8, "thorough": 32}


def bounds(tier):
    return {"max_records": 2 if tier == "quick" else 3}


PATHS = [(">s1>s2", 30, 2, 12), (">chr1:0-10>hA#1#c:5-25", 30, 2, 12), ("chr1", 1000, 102, 112)]
OPTS = [[], ["cg:Z:10="], ["tp:A:P", "cg:Z:4=1X5="], ["tp:A:P", "cg:Z:10=", "NM:i:0"], ["sp:Z:chr1:1000-2000 50%", "cg:Z:10="],
        ["ds:i:17", "cg:i:3", "cg:Z:10="],  # tag names the parser treats specially (ds:Z, cg:Z) with another type: ordinary fields
        ["ps:Z:chr9-77", "ht:Z:H2", "cg:Z:10="]]  # the last: the output of an earlier phase run is phased again
STATES = ["H1", "H2", "none", "missing", "twice"]


R1 = '"r1"/ccs'  # a read name that starts with a double quote (no white space: valid)
R2 = "@r2/1"  # a read name as it appears in a FASTQ header line


def alphabet():
    out = []
    for read in (R1, R2):
        for strand in "+-":
            for pi, (path, plen, ps, pe) in enumerate(PATHS):
                for oi in (range(len(OPTS)) if pi == 0 else (pi % len(OPTS), (pi + 2) % len(OPTS))):
                    # on '-' strand records the name column carries a comment after a blank (GraphAligner style); the
                    # haplotag table lists the bare read id
                    name = read + (" runid=ab12 ch=7" if strand == "-" else "")
                    out.append(rgfa.Rec(name, 20, 3, 13, strand, path, plen, ps, pe, 9, 10, 60, OPTS[oi]))
    return out


TSV_FILLER = [0]  # rows of other reads in front of the rows of r1 / r2 (a whole-genome haplotag table has millions)


def tsv_text(states, header):
    lines = []
    if header:
        lines.append("#readname\thaplotype\tphaseset\tchromosome")
    for i in range(TSV_FILLER[0]):
        lines.append(f"other_read_{i:07d}\tH{1 + i % 2}\t{1000 + i % 7}\tchr{1 + i % 22}")
    for read, st in zip((R1, R2), states):
        if st == "missing":
            continue
        hap = st if st in ("H1", "H2") else ("H2" if st == "twice" else "none")
        ps = "1205" if hap != "none" else "none"  # the same phase-set id on two contigs: ids are only unique per contig
        line = f"{read}\t{hap}\t{ps}\tchr{1 if read == R1 else 2}"
        lines.append(line)
        if st == "twice":
            lines.append(line)
    return "".join(l + "\n" for l in lines)


def expected_phase(read, states):
    st = states[0 if read == R1 else 1]
    if st in ("none", "missing"):
        return None
    hap = "H2" if st == "twice" else st
    return hap, f"chr{1 if read == R1 else 2}", "1205"


def well_formed_field(f):
    try:
        t, ty, v = rgfa.split_tag(f)
    except ValueError:
        return False
    return len(t) == 2 and t[0].isalpha() and t[1].isalnum() and ty in "AifZHB" and len(ty) == 1 and not (ty != "Z" and v == "") and not v.startswith(":")


def judge(res, scratch, recs, states, header, large=False):
    from gaftools.cli import phase

    gaf = os.path.join(scratch, "in.gaf")
    tsv = os.path.join(scratch, "hap.tsv")
    outp = os.path.join(scratch, "out.gaf")
    text = "".join(r.line() + "\n" for r in recs)
    if len(text) % 7 == 3:
        text = text[:-1]  # some input files end without a newline
    fw.write_text(gaf, text)
    fw.write_text(tsv, tsv_text(states, header))
    if os.path.exists(outp):
        os.remove(outp)
    res.next_call()
    out = fw.guarded(phase.run, gaf_file=gaf, tsv_file=tsv, output=outp)
    res.evaluations += 1
    case = {"records": [r.line() for r in recs], "states": list(states), "header": header}
    if large:
        case = {"large": len(recs), "states": list(states), "header": header, "tsv_filler": TSV_FILLER[0]}
    if len(recs) >= 2 or any(r.strand == "-" or r.opt for r in recs):
        res.nt(fw.h64(case))
    if out.kind != "ok":
        res.fail(f"C20/phase-failed:{out.sig()}", f"phase failed: {out.brief()}", case)
        return
    data = open(outp).read()
    if data and not data.endswith("\n"):
        res.fail("C20/no-final-newline", "the last output line is not newline terminated (not a well-formed text/GAF file; a second phase run or `cat` of two outputs glues records together)", case)
    lines = data.split("\n")
    if lines and lines[-1] == "":
        lines = lines[:-1]
    if len(lines) != len(recs):
        res.fail("C20/record-count", f"{len(recs)} records in, {len(lines)} lines out", case)
        return
    for rin, line in zip(recs, lines):
        f = line.split("\t")
        if len(f) < 12:
            res.fail("C20/short-line", f"output line has {len(f)} columns: {line!r}", case)
            continue
        want_cols = rin.cols()
        if f[0] == want_cols[0].split(" ")[0]:
            want_cols = [f[0]] + want_cols[1:]  # gaftools documents that a read name is cut at its first blank
        if f[:12] != want_cols:
            diff = [i + 1 for i in range(12) if f[i] != want_cols[i]]
            res.fail("C20/mandatory-columns:" + "+".join(map(str, diff)), f"columns {diff} changed: {want_cols} -> {f[:12]}", case)
        opt = f[12:]
        bad = [x for x in opt if not well_formed_field(x)]
        if bad:
            kinds = sorted({("empty-field" if x == "" else "double-colon" if "::" in x[:7] else "not-a-tag") for x in bad})
            res.fail("C20/malformed-fields:" + "+".join(kinds), f"fields that are not TAG:TYPE:VALUE in {line!r}: {bad}", case)
            continue
        # the gained pair = what is left when the input's optional fields are taken out (an input that was phased before
        # keeps its old ps/ht among its fields)
        ps = ht = rest = None
        for i, a in enumerate(opt):
            if not a.startswith("ps:Z:"):
                continue
            for j, b in enumerate(opt):
                if j != i and b.startswith("ht:Z:") and [x for k, x in enumerate(opt) if k not in (i, j)] == rin.opt:
                    ps, ht, rest = [a], [b], rin.opt
                    break
            if ps:
                break
        if ps is None:
            ps = [x for x in opt if x.startswith("ps:Z:")]
            ht = [x for x in opt if x.startswith("ht:Z:")]
            rest = [x for x in opt if x[:5] not in ("ps:Z:", "ht:Z:")]
            n_in = sum(1 for x in rin.opt if x.startswith("ps:Z:"))
            if len(ps) != 1 + n_in or len(ht) != 1 + n_in:
                res.fail("C20/ps-ht-count", f"expected exactly one new ps:Z and one new ht:Z next to the input's fields {rin.opt}, got {opt}", case)
                continue
            if n_in:
                res.fail("C20/optional-fields-changed", f"optional fields {rin.opt} came out as {opt}: not the input's fields plus one ps:Z and one ht:Z", case)
                continue
        if rest != rin.opt:
            res.fail("C20/optional-fields-changed", f"optional fields {rin.opt} came out as {rest}", case)
        exp = expected_phase(rin.qname.split(" ")[0], states)
        if exp is None:
            if ps[0] != "ps:Z:none" or ht[0] != "ht:Z:none":
                res.fail("C20/unphased-not-none", f"read {rin.qname!r} is {states} in the TSV but got {ps[0]} {ht[0]}", case)
        else:
            hap, ctg, pset = exp
            if ht[0] != f"ht:Z:{hap}" or ctg not in ps[0][5:] or pset not in ps[0][5:]:
                res.fail("C20/wrong-phase", f"read {rin.qname} is {hap} on {ctg} phase set {pset} but got {ps[0]} {ht[0]}", case)


def plan(tier, seed):
    n = NSHARD[tier]
    return [{"shard": i, "of": n} for i in range(n)]


def run_shard(spec, tier, scratch):
    res = fw.ShardResult().begin(spec, tier)
    A = alphabet()
    n = 0
    for k in range(1, bounds(tier)["max_records"] + 1):
        for seq in itertools.product(range(len(A)), repeat=k):
            n += 1
            if n % spec["of"] != spec["shard"]:
                continue
            recs = [A[i] for i in seq]
            # the TSV states of the reads that occur; the other read cycles through the states with the file index
            for states in itertools.product(STATES, repeat=2):
                if k > 1 and (n + STATES.index(states[0]) * 5 + STATES.index(states[1])) % 5 and len({r.qname for r in recs}) == 1:
                    continue
                judge(res, scratch, recs, states, header=(n % 2 == 0))
    if spec["shard"] == 2 % spec["of"]:
        # every file of three records over a reduced alphabet (two records per read), under every TSV: orders such as
        # "read, other read, same read again" with the other read phased, unphased or not listed at all
        sub = [A[0], A[5], A[len(A) // 2], A[len(A) // 2 + 7]]
        for seq in itertools.product(sub, repeat=3):
            for states in itertools.product(STATES, repeat=2):
                for header in (False, True):
                    judge(res, scratch, list(seq), states, header)
                    res.count("three_record_files")
    if spec["shard"] == 1 % spec["of"]:
        # one deliberately large file (beyond any plausible batching threshold)
        big = [A[(i * 7) % len(A)] for i in range(2503)]
        judge(res, scratch, big, ("H1", "H2"), header=True, large=True)
        res.count("large_file_records", len(big))
        # the same with a haplotag table of 2.6 MB in which the rows of r1 / r2 come last
        TSV_FILLER[0] = 60_000
        try:
            judge(res, scratch, big[:40], ("H1", "H2"), header=True, large=True)
            res.count("large_tsv_rows", 60_000)
        finally:
            TSV_FILLER[0] = 0
    if spec["shard"] == 0:
        res.sample({"records": [A[2].line(), A[13].line()], "tsv": tsv_text(("H1", "twice"), True).split("\n")[:-1]})
    return res


def replay(case, scratch):
    res = fw.ShardResult()
    if "large" in case:
        A = alphabet()
        TSV_FILLER[0] = case.get("tsv_filler", 0)
        judge(res, scratch, [A[(i * 7) % len(A)] for i in range(case["large"])], tuple(case["states"]), case["header"], large=True)
        return res.failures
    judge(res, scratch, [rgfa.Rec.parse(l) for l in case["records"]], tuple(case["states"]), case["header"])
    return res.failures
