"""C14 - path sequences are spelled correctly and only for real walks.

Bounded-exhaustive exploration: every GFA over 2 nodes (all 3^10 link sets: each of the 10 node-side pairs
absent / declared from one end / declared from the other end) and over 3 nodes with few links, crossed
with every oriented step sequence up to a length bound, through GFA.extract_path and find_path.run,
against the reference model's walk/spelling semantics."""

import os
import itertools
import subprocess
import sys

from mc import framework as fw
from mc import rgfa
from mc import gen

ID = "C14"
LEVEL = "exploration"
TECHNIQUE = "bounded-exhaustive enumeration of (graph, step sequence) pairs against a reference model"
RULE = (
    "graphs: every assignment {absent, declared a->b, declared from the other end} to each unordered pair of "
    "node sides (incl. same-side pairs and self links) over 2 nodes [quick: <=4 links, thorough: all 3^10] and "
    "over 3 nodes [quick <=2 links, thorough <=3 links], in id/overlap/line-order variants; paths: every sequence "
    "of oriented steps up to the length bound. A case (graph, path) is non-trivial when the path has >=2 steps; "
    "distinct = distinct (graph text, path)."
)
ASSUMPTIONS = [
    "sequences are over ACGT, non-palindromic, pairwise distinct and not reverse complements of each other",
    "graphs larger than 3 nodes and paths longer than the bound are outside the explored space",
]
EXHAUSTIVE = True

SEQS = ["AAC", "GAT", "CCTA"]
NSHARD = {"quick": 16, "thorough": 64}


def bounds(tier):
    if tier == "quick":
        return {"nodes2_max_links": 4, "nodes2_path_len": 3, "nodes3_max_links": 2, "nodes3_path_len": 3}
    return {"nodes2_max_links": 10, "nodes2_path_len": 4, "nodes3_max_links": 3, "nodes3_path_len": 3}


def side_pairs(ids):
    sides = [(n, s) for n in ids for s in (0, 1)]
    return [p for p in itertools.combinations_with_replacement(sides, 2)]


def decl(pair, flipped):
    """textual declaration of the link joining two node sides."""
    (a, sa), (b, sb) = pair
    # leave a through side sa: orientation + if sa == 1; enter b through side sb: + if sb == 0
    l = rgfa.Link(a, "+" if sa == 1 else "-", b, "+" if sb == 0 else "-")
    return l.flipped() if flipped else l


def graph_space(ids, max_links):
    """yield tuples of (pair_index, flipped) choices."""
    pairs = side_pairs(ids)
    for k in range(0, max_links + 1):
        for combo in itertools.combinations(range(len(pairs)), k):
            for flips in itertools.product((False, True), repeat=k):
                yield tuple(zip(combo, flips))


def build_graph(ids, choice, variant):
    pairs = side_pairs(ids)
    g = rgfa.Graph()
    for i, n in enumerate(ids):
        # the "softmask" variant carries lower-case (soft-masked) bases, as assemblies and rGFAs built from them do
        g.add_seg(n, SEQS[i] if variant != "softmask" else SEQS[i][:1] + SEQS[i][1:].lower())
    for j, (pi, fl) in enumerate(choice):
        l = decl(pairs[pi], fl)
        if variant == "overlap":
            l.overlap = f"{j % 3}M"
        g.links.append(l)
    return g


def all_paths(ids, maxlen):
    steps = [(o, n) for n in ids for o in "><"]
    for k in range(1, maxlen + 1):
        for p in itertools.product(steps, repeat=k):
            yield list(p)


ID_SETS = {"plain": ["s1", "s2", "s3"], "odd": ["s1.2", "c:5-9", "H#1#x"], "numeric": ["0", "1", "10"]}  # odd: valid GFA names with non-word characters


def configs(tier):
    b = bounds(tier)
    out = []
    out.append(("n2", 2, b["nodes2_max_links"], b["nodes2_path_len"]))
    out.append(("n3", 3, b["nodes3_max_links"], b["nodes3_path_len"]))
    return out


def plan(tier, seed):
    n = NSHARD[tier]
    return [{"shard": i, "of": n} for i in range(n)]


def check_graph(res, scratch, ids, choice, variant, maxlen, gi, do_findpath):
    from gaftools.gfa import GFA

    res.next_call()

    g = build_graph(ids, choice, variant)
    if variant == "lfirst":
        text = "".join(l.line() + "\n" for l in g.links) + "".join(s.line() + "\n" for s in g.segs.values())
    else:
        text = g.text()
    path = os.path.join(scratch, "g.gfa")
    if gi % 3 == 1:
        text = text.rstrip("\n")  # some graph files end without a newline
    fw.write_text(path, text)
    out = fw.guarded(GFA, path)
    if out.kind != "ok":
        res.fail(f"C14/load:{out.sig()}", f"loading a valid GFA failed: {out.brief()}", {"gfa": text, "mode": "load"})
        return
    G = out.value
    sides = g.side_set()
    results = {}
    paths = list(all_paths(ids, maxlen))
    # the queries are made on one graph object, first in enumeration order, then in reverse order on a second
    # object: an answer must not depend on what was asked before (a failing case records its query history)
    for pass_no, (obj, plist) in enumerate(((G, paths), (None, paths[::-1]))):
        if obj is None:
            o2 = fw.guarded(GFA, path)
            if o2.kind != "ok":
                break
            obj = o2.value
        history = []
        for steps in plist:
            p = rgfa.steps_str(steps)
            history.append(p)
            res.evaluations += 1
            walk = g.is_walk(steps, sides)
            expect = g.spell(steps) if walk else ""
            try:
                got = obj.extract_path(p)
            except Exception as e:
                res.fail(
                    f"C14/exception:{type(e).__name__}",
                    f"extract_path({p}) raised {type(e).__name__}: {e}",
                    {"gfa": text, "mode": "extract", "path": p, "history": history[-400:]},
                )
                continue
            if pass_no == 0:
                results[p] = got
                if len(steps) >= 2:
                    res.nt(fw.h64(text + "|" + p))
                    res.count("walks" if walk else "nonwalks")
            if got != expect:
                kind = "walk-rejected" if (walk and got == "") else ("nonwalk-accepted" if not walk else "wrong-sequence")
                res.fail(
                    f"C14/{kind}",
                    f"extract_path({p}) returned {got!r} (query {len(history)} on this graph object), the model says "
                    f"{'walk' if walk else 'not a walk'} -> {expect!r}",
                    {"gfa": text, "mode": "extract", "path": p, "history": history[-400:]},
                )
    # reversal symmetry, checked directly on the implementation's own answers
    for steps in paths:
        p = rgfa.steps_str(steps)
        r = rgfa.steps_str(rgfa.reverse_steps(steps))
        if p in results and r in results:
            a, b = results[p], results[r]
            if (a == "") != (b == "") or (a != "" and b != rgfa.revcomp(a)):
                allp = [rgfa.steps_str(x) for x in paths]
                upto = max(allp.index(p), allp.index(r)) + 1
                res.fail(
                    "C14/reverse-asymmetry",
                    f"{p} -> {a!r} but reversed walk {r} -> {b!r}",
                    {"gfa": text, "mode": "extract", "path": p, "also": r, "history": allp[:upto][-400:]},
                )
    if do_findpath:
        res.sample({"gfa": text.split("\n")[:-1], "paths": [rgfa.steps_str(s) for s in paths[:6]] + ["..."], "n_paths": len(paths)})
        for fasta in (False, True):
            check_find_path(res, scratch, g, text, [rgfa.steps_str(s) for s in paths], fasta)


def expected_find_path(g, plist, fasta):
    sides = g.side_set()
    lines = []
    for p in plist:
        steps = rgfa.parse_steps(p)
        seq = g.spell(steps) if g.is_walk(steps, sides) else ""
        if fasta:
            lines.append(f">seq_{p}")
        lines.append(seq)
    return lines


def check_find_path(res, scratch, g, text, plist, fasta, single=False, standalone=True):
    from gaftools.cli import find_path

    if standalone:
        res.next_call()

    gpath = os.path.join(scratch, "fp.gfa")
    fw.write_text(gpath, text)
    outp = os.path.join(scratch, "fp.out")
    if os.path.exists(outp):
        os.remove(outp)
    if single:
        arg = plist[0]
    else:
        arg = os.path.join(scratch, "fp.txt")
        ptext = "".join(p + "\n" for p in plist)
        nonl = (len(ptext) + len(plist) + int(fasta)) % 2 == 1  # about every other path file has no newline after its last path
        fw.write_text(arg, ptext[:-1] if nonl else ptext)
    out = fw.guarded(find_path.run, gfa_path=gpath, input_path=arg, output=outp, fasta=fasta)
    res.evaluations += 1
    case = {"gfa": text, "mode": "find_path", "paths": plist, "fasta": fasta, "single": single}
    if out.kind != "ok":
        res.fail(f"C14/find_path:{out.sig()}", f"find_path failed: {out.brief()}", case)
        return
    got = open(outp).read().split("\n")
    if got and got[-1] == "":
        got = got[:-1]
    exp = expected_find_path(g, plist[:1] if single else plist, fasta)
    res.nt(fw.h64(text + "|fp|" + str(fasta) + str(single) + "|".join(plist)))
    if got != exp:
        k = next((i for i, (a, b) in enumerate(zip(got, exp)) if a != b), min(len(got), len(exp)))
        res.fail(
            "C14/find_path-output",
            f"find_path output differs from one record per path in order (fasta={fasta}): "
            f"{len(got)} lines vs {len(exp)} expected; first difference at line {k}: "
            f"{got[k] if k < len(got) else None!r} vs {exp[k] if k < len(exp) else None!r}",
            case,
        )


def cli_case():
    ids = ID_SETS["plain"][:2]
    pairs = side_pairs(ids)
    choice = ((pairs.index((("s1", 1), ("s2", 0))), False), (pairs.index((("s1", 0), ("s2", 0))), True))
    g = build_graph(ids, choice, "plain")
    return g.text(), [">s1>s2", "<s2<s1", "<s1>s2", ">s2>s1", ">s1"]


def cli_binding(res, scratch, text=None, plist=None, fastas=(False, True)):
    """Bind the in-process entry point to the command line: same answer through `python -m gaftools find_path`."""
    if text is None:
        text, plist = cli_case()
    g = rgfa.Graph.parse(text)
    gpath = os.path.join(scratch, "cli.gfa")
    fw.write_text(gpath, text)
    fpath = os.path.join(scratch, "cli.txt")
    fw.write_text(fpath, "".join(p + "\n" for p in plist))
    env = dict(os.environ)
    env["PYTHONPATH"] = fw.REPO + os.pathsep + env.get("PYTHONPATH", "")
    for fasta in fastas:
        cmd = [sys.executable, "-m", "gaftools", "find_path", gpath, fpath] + (["--fasta"] if fasta else [])
        p = subprocess.run(cmd, stdout=subprocess.PIPE, stderr=subprocess.PIPE, env=env, cwd=scratch)
        res.evaluations += 1
        got = p.stdout.decode().split("\n")
        if got and got[-1] == "":
            got = got[:-1]
        exp = expected_find_path(g, plist, fasta)
        if p.returncode != 0 or got != exp:
            res.fail(
                "C14/cli-output",
                f"`gaftools find_path` (fasta={fasta}) exit {p.returncode}, output {got!r}, expected {exp!r}",
                {"gfa": text, "mode": "cli", "paths": plist, "fasta": fasta},
            )
        res.count("cli_runs")


def run_shard(spec, tier, scratch):
    res = fw.ShardResult().begin(spec, tier)  # a result may depend on the graphs the process has loaded before (state shared between GFA objects)
    sh, of = spec["shard"], spec["of"]
    gi = 0
    for name, n, max_links, maxlen in configs(tier):
        for idset, variants in (("plain", ("plain", "overlap", "softmask")), ("odd", ("lfirst",)), ("numeric", ("plain",))):
            ids = ID_SETS[idset][:n]
            for choice in graph_space(ids, max_links):
                for variant in variants:
                    if idset in ("odd", "numeric") and len(choice) > 2:
                        continue  # id/line-order variants only on the small link sets
                    if variant in ("overlap", "softmask") and (len(choice) == 0 or len(choice) > 2):
                        continue
                    gi += 1
                    if gi % of != sh:
                        continue
                    res.count("graphs")
                    check_graph(res, scratch, ids, choice, variant, maxlen, gi, do_findpath=(gi % 97 == sh % 97))
    # single-path mode of find_path on a fixed small graph, every 2-step path
    if sh == 0:
        ids = ID_SETS["plain"][:2]
        pairs = side_pairs(ids)
        for choice in graph_space(ids, 1):
            g = build_graph(ids, choice, "plain")
            for steps in all_paths(ids, 2):
                for fasta in (False, True):
                    check_find_path(res, scratch, g, g.text(), [rgfa.steps_str(steps)], fasta, single=True)
        # every path file of <=3 lines over a 3-path alphabet (walk, non-walk, single node), repeats included
        g = rgfa.Graph.parse(cli_case()[0])
        alpha = [">s1>s2", ">s2>s1", "<s1"]
        for k in (1, 2, 3):
            for plist in itertools.product(alpha, repeat=k):
                for fasta in (False, True):
                    check_find_path(res, scratch, g, g.text(), list(plist), fasta)
                    res.count("path_files_with_repeats" if len(set(plist)) < len(plist) else "path_files_distinct")
        cli_binding(res, scratch)
        long_nodes(res, scratch)
    return res


def long_nodes(res, scratch):
    """nodes around and beyond 2^15 and 2^16 bases, partly soft-masked, spelled forward and reverse (a size threshold in a
    helper must not change the result)"""
    from gaftools.gfa import GFA

    for n in (32_767, 32_768, 40_000, 65_536, 70_001):
        seq = gen._seq(n, n % 13)
        seq = seq[: n // 3] + seq[n // 3 : n // 3 + 500].lower() + seq[n // 3 + 500 :]
        g = rgfa.Graph()
        g.add_seg("big", seq, [])
        g.add_seg("s2", "ACg", [])
        g.add_link("big", "+", "s2", "+", "0M")
        path = os.path.join(scratch, "long.gfa")
        fw.write_text(path, g.text())
        out = fw.guarded(GFA, path)
        res.evaluations += 1
        res.count("long_node_graphs")
        short = {"mode": "long-node", "gfa": f"(one node of {n} bases with 500 soft-masked bases, linked to ACg)", "n": n}
        if out.kind != "ok":
            res.fail(f"C14/load:{out.sig()}", f"node of {n} bases: {out.brief()}", short)
            continue
        for p in (">big", "<big", ">big>s2", "<s2<big", "<big>s2"):
            steps = rgfa.parse_steps(p)
            expect = g.spell(steps) if g.is_walk(steps) else ""
            o = fw.guarded(out.value.extract_path, p)
            res.nt(fw.h64(["long", n, p]))
            if o.kind != "ok":
                res.fail(f"C14/exception:{o.sig()}", f"node of {n} bases, extract_path({p}): {o.brief()}", dict(short, path=p))
            elif o.value != expect:
                k = next((i for i, (a, b) in enumerate(zip(o.value, expect)) if a != b), min(len(o.value), len(expect)))
                res.fail("C14/wrong-sequence-long-node", f"node of {n} bases, extract_path({p}): {len(o.value)} bases returned, {len(expect)} expected; first difference at base {k}: {o.value[k:k+8]!r} vs {expect[k:k+8]!r}", dict(short, path=p))


def replay(case, scratch):
    res = fw.ShardResult()
    if case["mode"] == "long-node":
        long_nodes(res, scratch)
        return [f for f in res.failures if f["case"].get("n") == case.get("n") and f["case"].get("path") == case.get("path")] or res.failures
    g = rgfa.Graph.parse(case["gfa"])
    if case["mode"] in ("extract", "load"):
        from gaftools.gfa import GFA

        path = os.path.join(scratch, "g.gfa")
        fw.write_text(path, case["gfa"])
        out = fw.guarded(GFA, path)
        if out.kind != "ok":
            res.fail(f"C14/load:{out.sig()}", out.brief(), case)
            return res.failures
        G = out.value
        answers = {}
        for p in list(case.get("history") or []) + [case.get("path"), case.get("also")]:
            if not p or p in answers:
                continue
            try:
                answers[p] = G.extract_path(p)  # re-creates the query history on this object
            except Exception as e:
                answers[p] = e
        for p in [case.get("path"), case.get("also")]:
            if not p:
                continue
            steps = rgfa.parse_steps(p)
            walk = g.is_walk(steps)
            expect = g.spell(steps) if walk else ""
            got = answers[p]
            if isinstance(got, Exception):
                res.fail(f"C14/exception:{type(got).__name__}", str(got), case)
                continue
            if got != expect:
                kind = "walk-rejected" if (walk and got == "") else ("nonwalk-accepted" if not walk else "wrong-sequence")
                res.fail(f"C14/{kind}", f"extract_path({p}) -> {got!r}, expected {expect!r}", case)
        if case.get("also"):
            a, b = answers[case["path"]], answers[case["also"]]
            if isinstance(a, str) and isinstance(b, str):
                if (a == "") != (b == "") or (a != "" and b != rgfa.revcomp(a)):
                    res.fail("C14/reverse-asymmetry", f"{a!r} vs {b!r}", case)
    elif case["mode"] == "cli":
        cli_binding(res, scratch, case["gfa"], case["paths"], (case["fasta"],))
    else:
        check_find_path(res, scratch, g, case["gfa"], case["paths"], case["fasta"], case.get("single", False))
    return res.failures

LEVEL_TEXT = (
    "Every (graph, step sequence) pair inside the stated bounds is executed on the real GFA.extract_path / "
    "find_path.run and compared with an independent walk/spelling model; the space is enumerated completely, "
    "so within the bounds no input violates the property. Small-scope exhaustive exploration is the right level: "
    "the code is a 4-row orientation table plus a side-indexed adjacency, whose every row/side combination is "
    "reached by 2-node graphs."
)
LEVEL_NOTE = (
    "Trusts the reference model in mc/rgfa.py (GFA1 link semantics: `L a + b +` joins end of a to start of b) and "
    "assumes defects manifest on <=3 nodes and <=4 steps."
)
DESIGN_REF = "DESIGN.md §4 C14"
