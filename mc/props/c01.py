"""C01 - coordinate conversion designates the same aligned locus (both directions)."""

import os

from mc import framework as fw
from mc import rgfa
from mc import gen
from mc import conv

ID = "C01"
LEVEL = "exploration"
TECHNIQUE = "bounded-exhaustive enumeration of (rGFA layout, walk record) pairs through view --format, judged by an independent locus model"
RULE = (
    "layouts: one rank-0 contig tiled by <=R segments of length 1-2 x 6 haplotype patterns (none / one / touching / separated / "
    "separated + second contig / touching+separated), unscaled and x37; complete link set; records: every oriented step sequence "
    "of <=L steps (forward, reverse, inversions, revisits) x every 0<=start<end<=path length (boundary-value offsets for the x37 "
    "layouts). Direction u->s on the records; direction s->u on the model's stable forms of the same walks (canonical, unmerged, "
    "uncollapsed). A case is non-trivial when its path has >=2 steps or is reversed; distinct = distinct (layout, direction, form, record)."
)
ASSUMPTIONS = [
    "zero-length alignments are excluded (degenerate in both coordinate systems)",
    "'+'-strand inputs for u->s; s->u inputs are the stable forms of walks (interval boundaries on node boundaries), with '-' only on bare contigs",
    "paths longer than L steps and layouts with more than R reference segments are outside the explored space",
]
LEVEL_TEXT = (
    "All records over all layouts inside the bounds are converted by the real `view --format` and each output is decoded by an "
    "independent model into the list of (contig, position, orientation) it designates; equality of that list is stronger than "
    "the statement's 'same spelled string'. Exhaustive small-scope enumeration reaches every branch of merge/collapse/overlap logic "
    "(3+ reference nodes, merged reverse paths, separated haplotype segments) that the six golden records never touch."
)
LEVEL_NOTE = "Trusts mc/rgfa.py's reading of the rGFA/GAF stable-coordinate convention (checked against the repository's own conversion fixtures in the model self-test)."
DESIGN_REF = "DESIGN.md §4 C01"
EXHAUSTIVE = True


def bounds(tier):
    if tier == "quick":
        return {"max_ref_segments": 3, "max_steps": 3, "max_steps_scaled": 2, "scales": [1, 37]}
    return {"max_ref_segments": 4, "max_steps": 3, "max_steps_small_layouts": 4, "max_steps_scaled": 3, "scales": [1, 37]}


def plan(tier, seed):
    b = bounds(tier)
    specs = []
    for L in gen.layouts(b["max_ref_segments"], scales=b["scales"]):
        specs.append({"layout": conv.layout_desc(L)})
    # heavy layouts first so that the pool stays busy
    specs.sort(key=lambda s: -(len(s["layout"]["ref_lens"]) + len(gen.hap_segments(s["layout"]["pattern"]))) * (3 if s["layout"]["scale"] == 1 else 1))
    specs[0]["extras"] = True
    # one long reference: 12 reference segments s1..s12 (ids cross the 9 -> 10 digit boundary) and one haplotype segment, walks of <= 2 steps
    specs.append({"layout": {"ref_lens": list(LONG_REF), "pattern": "one", "scale": 1}})
    # and one of 70 unit segments (beyond any plausible "small contig" threshold), walks of <= 2 steps
    specs.insert(0, {"layout": {"ref_lens": [1] * 70, "pattern": "one", "scale": 1}})  # the longest shard: scheduled first
    return specs


LONG_REF = (1, 2, 1, 1, 2, 1, 1, 1, 2, 1, 1, 1)


def maxlen_for(L, tier):
    b = bounds(tier)
    if len(L.ref_lens) > 4:
        return 2
    if L.scale != 1:
        return b["max_steps_scaled"]
    if tier == "thorough" and len(L.segs) <= 3:
        return b["max_steps_small_layouts"]
    return b["max_steps"]


def stable_forms(g, rin):
    """model's stable forms of an unstable record: (form name, record)"""
    can = rgfa.to_stable_model(g, rin, merge=True, collapse=True)
    out = [("canonical", can)]
    unc = rgfa.to_stable_model(g, rin, merge=True, collapse=False)
    if unc.line() != can.line():
        out.append(("uncollapsed", unc))
    unm = rgfa.to_stable_model(g, rin, merge=False, collapse=False)
    if unm.line() not in (can.line(), unc.line()):
        out.append(("unmerged", unm))
    return out


def check_direction(res, g, L, direction, form, pairs, lines, out, prop="C01", judge=None, scratch=None, gpath=None):
    """pairs: list of input records; lines: output lines"""
    desc = conv.layout_desc(L)
    if out.kind != "ok":
        # find one record that reproduces the failure alone is left to replay; report with the whole input trimmed
        res.fail(
            f"{prop}/{direction}:{out.sig()}",
            f"view --format on a file of {len(pairs)} valid records failed: {out.brief()}",
            {"layout": desc, "direction": direction, "form": form, "records": [r.line() for r in pairs[:200]]},
        )
        return
    if len(lines) != len(pairs):
        res.fail(
            f"{prop}/{direction}:record-count",
            f"{len(pairs)} input records, {len(lines)} output records",
            {"layout": desc, "direction": direction, "form": form, "records": [r.line() for r in pairs[:200]]},
        )
        return
    fmt = "stable" if direction == "u2s" else "unstable"

    def still_fails(kind):
        def test(lst):
            o, ls = conv.view_convert(scratch, "".join(r.line() + "\n" for r in lst), gpath, fmt, "shrink")
            if o.kind != "ok" or len(ls) != len(lst):
                return True
            try:
                ro = rgfa.Rec.parse(ls[-1])
            except Exception:
                return True
            return any(k == kind for k, t in judge(g, lst[-1], ro, direction))

        return test

    for idx, (rin, line) in enumerate(zip(pairs, lines)):
        res.evaluations += 1
        try:
            rout = rgfa.Rec.parse(line)
        except Exception as e:
            res.fail(f"{prop}/{direction}:unparsable-line", f"{line!r}: {e}", {"layout": desc, "direction": direction, "form": form, "records": [r.line() for r in pairs[: idx + 1]][-300:]})
            continue
        steps_n = rin.path.count(">") + rin.path.count("<")
        if steps_n >= 2 or "<" in rin.path or rin.strand == "-":
            res.nt(fw.h64(L.name + direction + form + rin.line()))
        for kind, text in judge(g, rin, rout, direction):
            sig = f"{prop}/{direction}:{kind}"
            ctx = [rin]
            if res.would_keep(sig) and scratch is not None:
                ctx = conv.shrink_context(pairs, idx, still_fails(kind))
            res.fail(
                sig,
                f"[{L.name}] {rin.path} [{rin.ps},{rin.pe}) strand {rin.strand} -> {rout.path} [{rout.ps},{rout.pe}) strand {rout.strand}: {text}"
                + (f" (only after {len(ctx) - 1} earlier record(s) in the same file)" if len(ctx) > 1 else ""),
                {"layout": desc, "direction": direction, "form": form, "records": [r.line() for r in ctx]},
            )


def run_layout(res, L, tier, scratch, judge=conv.judge_locus, prop="C01"):
    g = L.graph("complete")
    gpath = os.path.join(scratch, "g.gfa")
    fw.write_text(gpath, conv.gfa_text(g, L))
    conv.prime_with_sibling(scratch, L)
    maxlen = maxlen_for(L, tier)
    recs = [r for r, steps in conv.records_for(g, L, maxlen)]
    res.count("records_u2s", len(recs))
    # u -> s
    out, lines = conv.view_convert(scratch, "".join(r.line() + "\n" for r in recs), gpath, "stable", "u2s")
    check_direction(res, g, L, "u2s", "walk", recs, lines, out, prop, judge, scratch, gpath)
    # s -> u on the model's own stable forms (independent of the first direction being right)
    sin = {}
    for r in recs:
        li = rgfa.loci(g, r)
        for form, s in stable_forms(g, r):
            if rgfa.loci(g, s) != li:
                raise fw.HarnessError(f"model inconsistency: stable form {form} of {r.line()} designates a different locus")
            sin.setdefault(form, []).append(s)
    for form, srecs in sin.items():
        res.count("records_s2u_" + form, len(srecs))
        out, lines = conv.view_convert(scratch, "".join(r.line() + "\n" for r in srecs), gpath, "unstable", "s2u")
        check_direction(res, g, L, "s2u", form, srecs, lines, out, prop, judge, scratch, gpath)
    if recs:
        k = len(recs) // 2
        res.sample({"layout": L.name, "record": recs[k].line(), "stable_forms": [s.line() for f, s in stable_forms(g, recs[k])]})
    return g, gpath, recs


def cli_binding(res, scratch, prop="C01"):
    L = gen.Layout((2, 1), "separated2", 1)
    g = L.graph("complete")
    gpath = os.path.join(scratch, "cli.gfa")
    fw.write_text(gpath, g.text())
    recs = [r for r, st in conv.records_for(g, L, 2)]
    text = "".join(r.line() + "\n" for r in recs)
    conv.prime_with_sibling(scratch, L)  # the same local history in the run and in a replay
    out, lines = conv.view_convert(scratch, text, gpath, "stable", "cli")
    rc, cl = conv.cli_view(scratch, text, gpath, "stable")
    res.evaluations += 1
    res.count("cli_runs")
    if rc != 0 or cl != lines:
        res.fail(f"{prop}/cli-differs", f"`gaftools view -f stable` exit {rc}: {len(cl)} lines vs {len(lines)} from view.run",
                 {"layout": conv.layout_desc(L), "direction": "cli", "form": "walk", "records": [r.line() for r in recs]})


def run_shard(spec, tier, scratch):
    res = fw.ShardResult().begin(spec, tier)  # a result may depend on earlier conversions in the process: a failure is re-created by re-running the shard
    res.next_call()
    L = conv.layout_from(spec["layout"])
    run_layout(res, L, tier, scratch)
    if spec.get("extras"):
        cli_binding(res, scratch)
    return res


def replay(case, scratch, judge=conv.judge_locus, prop="C01"):
    res = fw.ShardResult()
    L = conv.layout_from(case["layout"])
    g = L.graph("complete")
    gpath = os.path.join(scratch, "g.gfa")
    fw.write_text(gpath, conv.gfa_text(g, L))
    conv.prime_with_sibling(scratch, L)  # the run had converted on the sibling graph before, in the same process
    recs = [rgfa.Rec.parse(l) for l in case["records"]]
    text = "".join(r.line() + "\n" for r in recs)
    if case["direction"] == "cli":
        out, lines = conv.view_convert(scratch, text, gpath, "stable", "cli")
        rc, cl = conv.cli_view(scratch, text, gpath, "stable")
        if rc != 0 or cl != lines:
            res.fail(f"{prop}/cli-differs", "CLI output differs from view.run", case)
        return res.failures
    fmt = "stable" if case["direction"] == "u2s" else "unstable"
    out, lines = conv.view_convert(scratch, text, gpath, fmt, "rp")
    check_direction(res, g, L, case["direction"], case["form"], recs, lines, out, prop, judge, None, gpath)
    return res.failures
