"""C13 - realign aborts with an error when a worker dies.

Fault enumeration on the real collection loop: for every configuration, every worker, every point of its batch
(after delivering exactly k of its results, k = 0..#records, i.e. up to 'all records delivered, sentinel not')
and both ways of dying (SIGKILL, crash with exit code 1), combined with every schedule of parent operations and
surviving workers (mc/vmp.py). Every terminal execution must end in a non-zero exit or an escaping exception."""

import os

from mc import framework as fw
from mc import realign_common as rc
from mc.props import c11

ID = "C13"
LEVEL = "fault_enumeration"
ENGINE = "E1-schedule-fault-explorer"
TECHNIQUE = (
    "exhaustive fault-point x schedule enumeration on the real parent loop under a virtual multiprocessing "
    "(stateless model checking of the implementation), faults replayed with real killed processes"
)
RULE = (
    "faults: (worker w, k results delivered before death, kind in {SIGKILL at the k-th delivery; exception raised inside the worker body while computing record k / at the sentinel put, handled by the worker's own code}) for every worker and every "
    "0 <= k <= #records of its batch [thorough: also every pair of such faults on two workers]; for each fault all schedules "
    "with <= B deviations (unpruned) plus the complete schedule tree with canonical-state pruning. evaluations = executions; "
    "all are non-trivial (each contains a worker death); distinct = distinct (configuration, fault, choice sequence)."
)
ASSUMPTIONS = c11.ASSUMPTIONS + [
    "death after the sentinel has been delivered is outside the alphabet of the schedule model (the batch is complete); the real-process runs include it with the weaker demand that the command may only succeed when its output is complete",
    "a killed child loses whatever its feeder thread had not flushed, so 'killed after put() returned' equals a smaller k",
]
LEVEL_TEXT = (
    "Every single worker death at every point of its batch, under every schedule of the remaining system within the bounds, "
    "is executed against the real parent loop; the documented abort behaviour lives in a branch the test suite never enters. "
    "Deaths during a delivery (the queue's write lock stays taken) are part of the fault alphabet. A sample of the explored fault "
    "schedules is replayed on real processes, and a fixed family of real runs (SIGKILL, SIGTERM, os._exit, exception; before, "
    "between, during and after the deliveries; injected through the worker's queue and through the aligner) binds the fault "
    "model to what the operating system does."
)
LEVEL_NOTE = c11.LEVEL_NOTE
DESIGN_REF = "DESIGN.md §2.2-2.3"
EXHAUSTIVE = True

CAP = c11.CAP
CAP_UNPRUNED = {"quick": 20000, "thorough": 3000}  # per fault: the unpruned run is only a cross-check of the pruned complete one
REAL_REPLAYS = {"quick": 1, "thorough": 2}


def bounds(tier):
    b = c11.bounds(tier)
    b["deviation_bound_unpruned"] = 2 if tier == "quick" else 3
    b["max_simultaneous_faults"] = 1 if tier == "quick" else 2
    b["exec_cap_per_unpruned_exploration"] = CAP_UNPRUNED[tier]
    b["configs"] = len({s_["i"] for s_ in plan_virtual(tier, 0)})
    return b


def faults_for(c, tier, nops=None):
    """nops: events per worker from an undisturbed probe run (puts, plus acquire/release of shared semaphores when the
    code uses them); a SIGKILL fault point is 'before event k', k = 0..#events-1 (the last event is the sentinel put)."""
    single = []
    for w in range(rc.n_workers(c)):
        recs = rc.worker_records(c, w)
        kill_points = range((nops[w] if nops and w in nops else recs + 1))
        for k in kill_points:
            single.append([{"w": w, "k": k, "code": -9}])
        for k in range(recs + 1):
            single.append([{"w": w, "k": k, "code": 1}])
        if c["cores"] >= 2 and rc.n_workers(c) >= 2 and len(kill_points) == recs + 1:
            # SIGKILL *during* the k-th delivery: the message does not arrive and the write lock shared by all writers of
            # the queue stays taken, so every other worker of the group blocks in its next delivery and never exits
            for k in range(recs + 1):
                single.append([{"w": w, "k": k, "code": -9, "lock": True}])
    out = list(single)
    if tier == "thorough" and 2 <= rc.n_workers(c) <= 3 and c["nrec"] <= 4:
        for a in single:
            for b in single:
                if a[0]["w"] < b[0]["w"] and a[0]["code"] == -9 and b[0]["code"] == -9 and not (a[0].get("lock") and b[0].get("lock")):
                    out.append([a[0], b[0]])
    return out


def plan(tier, seed):
    return [{"real_fault": True, "shard": i, "of": 6} for i in range(6)] + plan_virtual(tier, seed)


def plan_virtual(tier, seed):
    cs = [c for c in rc.configs(tier) if not c.get("passthrough")]  # (the pass-through configurations are C11's)
    if tier == "quick":
        # four one-record workers x 8 fault points each are left to the thorough tier (the three-worker configurations stay)
        cs = [c for c in cs if not (c["nrec"] == 4 and c["batch"] == 1)]
    else:
        # three concurrent workers with three events each (about 85 000 executions per fault, 27 faults) are left to C11,
        # which explores that configuration without the fault dimension
        cs = [c for c in cs if min(c["cores"], rc.n_workers(c)) * (min(c["batch"], c["nrec"]) + 1) <= 6]
    # the heaviest configurations first, so that the pool stays busy
    cs.sort(key=lambda c: -(rc.n_workers(c) * (c["nrec"] + 2) * (3 if c.get("long") else 1)))
    out = []
    for i, c in enumerate(cs):
        # the fault list of a configuration with concurrent workers is split over several shards
        parts = (4 if tier == "quick" else 16) if (c["cores"] >= 2 and rc.n_workers(c) >= 2 and not c.get("pipe")) else 1
        for j in range(parts):
            out.append({"config": c, "i": i, "part": j, "parts": parts})
    return out


REAL_TIMEOUT = 15


def real_fault_runs(res, scratch, spec, tier, only=None):
    """Binding the fault model to the operating system without the virtual scheduler: the real command with real worker
    processes, one of which really dies (SIGKILL, SIGTERM, os._exit, exception) at a chosen point. The command has to end
    with a non-zero status within the time limit."""
    import gzip
    import signal
    import subprocess
    import sys

    d = os.path.join(scratch, "realfault")
    nrec = 4
    cfg = rc.make_inputs(d, nrec)
    gz = os.path.join(d, "g.gfa.gz")
    with gzip.open(gz, "wt") as f:
        f.write(rc.GFA_TEXT)
    runs = []
    for cores in (1, 2):
        for batch in (1, 2):
            nw = -(-nrec // batch)
            for w in sorted({0, nw - 1}):
                recs = min(batch, nrec - w * batch)
                for k in sorted({0, recs}):
                    for kind in ("kill", "term", "exc", "exit3", "lockkill", "lockexit"):
                        for graph in (cfg["gfa"], gz):
                            runs.append((cores, batch, w, k, kind, graph))
    if tier == "quick":
        runs = [r for r in runs if (r[0] == 2 or r[4] in ("kill", "term")) and (r[4] != "lockexit" or r[5].endswith(".gfa"))]
    env = dict(os.environ)
    env["PYTHONPATH"] = fw.VERIF + os.pathsep + env.get("PYTHONPATH", "")
    nhang = 0
    for i, (cores, batch, w, k, kind, graph) in enumerate(runs):
        if i % spec["of"] != spec["shard"]:
            continue
        if only is not None and [cores, batch, w, k, kind, os.path.basename(graph)] != only:
            continue
        out = os.path.join(d, "out.gaf")
        if os.path.exists(out):
            os.remove(out)
        what = f"[real processes: --cores {cores}, {batch} record(s) per worker, worker {w} dies by {kind} after {k} result(s), graph {os.path.basename(graph)}]"
        case = {"real_fault": [cores, batch, w, k, kind, os.path.basename(graph)]}
        res.evaluations += 1
        res.nt(fw.h64(case))
        res.count("real_process_fault_runs")
        # own session, no pipes: a hung command leaves live grandchildren behind, which are killed as a group.
        # A run that exceeds the time limit is repeated once with five times the limit before it is called a hang
        # (a heavily loaded machine must not look like one).
        for limit in (REAL_TIMEOUT, 5 * REAL_TIMEOUT):
            if os.path.exists(out):
                os.remove(out)
            with open(os.path.join(d, "driver.err"), "wb") as errf:
                p = subprocess.Popen([sys.executable, "-m", "mc.realfault_driver", d, str(cores), str(batch), str(w), str(k), kind, graph],
                                     cwd=fw.VERIF, env=env, stdout=subprocess.DEVNULL, stderr=errf, stdin=subprocess.DEVNULL, start_new_session=True)
                try:
                    p.wait(timeout=limit)
                    hung = False
                except subprocess.TimeoutExpired:
                    hung = True
                try:
                    os.killpg(p.pid, signal.SIGKILL)
                except ProcessLookupError:
                    pass
                p.wait()
            if not hung:
                break
        if hung:
            res.fail(f"C13/real-run:hang:{kind}", f"{what} the command is still running after {5 * REAL_TIMEOUT} s", case)
            nhang += 1
            if nhang >= 3:
                break  # enough evidence; every further hang costs the full time limit
            continue
        if p.returncode == 0:
            n = len([l for l in open(out).read().split("\n") if l]) if os.path.exists(out) else 0
            res.fail(f"C13/real-run:zero-exit:{kind}", f"{what} the command exited with status 0 ({n} of {nrec} records written)", case)
    # the same kinds of death injected through the aligner (independent of how work is handed to the workers and how results
    # come back): before read j is aligned, and at the very end of a batch (after its results have left the worker)
    runs2 = []
    for cores in (1, 2):
        for batch in (1, 2):
            for j in sorted({0, batch - 1, nrec - 1}):
                for kind in ("kill", "term", "exit3", "exc"):
                    runs2.append((cores, batch, j, kind, "before"))
            for j in sorted({batch - 1, nrec - 1}):
                for kind in ("kill", "exit3"):
                    runs2.append((cores, batch, j, kind, "end"))
    if tier == "quick":
        runs2 = [r for r in runs2 if r[0] == 2 or r[3] == "kill"]
    for i, (cores, batch, j, kind, when) in enumerate(runs2):
        if i % spec["of"] != spec["shard"]:
            continue
        if only is not None and [cores, batch, j, kind, when] != only:
            continue
        out = os.path.join(d, "out.gaf")
        what = f"[real processes: --cores {cores}, {batch} record(s) per worker, the worker aligning read {j} dies by {kind} " + ("before that alignment]" if when == "before" else "at the end of its batch, after its results have left it]")
        case = {"real_fault": [cores, batch, j, kind, when]}
        res.evaluations += 1
        res.nt(fw.h64(case))
        res.count("real_process_fault_runs")
        for limit in (REAL_TIMEOUT, 5 * REAL_TIMEOUT):
            if os.path.exists(out):
                os.remove(out)
            with open(os.path.join(d, "driver.err"), "wb") as errf:
                p = subprocess.Popen([sys.executable, "-m", "mc.realfault_driver2", d, str(cores), str(batch), str(j), kind, when],
                                     cwd=fw.VERIF, env=env, stdout=subprocess.DEVNULL, stderr=errf, stdin=subprocess.DEVNULL, start_new_session=True)
                try:
                    p.wait(timeout=limit)
                    hung = False
                except subprocess.TimeoutExpired:
                    hung = True
                try:
                    os.killpg(p.pid, signal.SIGKILL)
                except ProcessLookupError:
                    pass
                p.wait()
            if not hung:
                break
        if hung:
            res.fail(f"C13/real-run:hang:{kind}", f"{what} the command is still running after {5 * REAL_TIMEOUT} s", case)
            nhang += 1
            if nhang >= 3:
                break
            continue
        if p.returncode == 0:
            n = len([l for l in open(out).read().split("\n") if l]) if os.path.exists(out) else 0
            if when == "before" or n != nrec:
                res.fail(f"C13/real-run:zero-exit:{kind}", f"{what} the command exited with status 0 ({n} of {nrec} records written)", case)


def judge(x, nrec, fault):
    # premise of the property: a worker terminated abnormally. A crash that the worker's own code swallowed
    # (it exits 0) is not an abnormal termination.
    abnormal = False
    for f in fault:
        if f["w"] < len(x.workers) and x.workers[f["w"]].started:
            w = x.workers[f["w"]]
            if f["code"] < 0 or w.natural_code != 0:
                abnormal = True
    if not abnormal:
        return None
    names = rc.out_names(x.output)
    if x.outcome == ("return",):
        missing = [n for n in rc.expected_names(nrec) if n not in names]
        return (
            "C13/success-after-worker-death",
            f"a worker died but the command returned normally ({len(missing)} of {nrec} records missing from the output)",
        )
    if x.outcome[0] == "hang":
        return (f"C13/hang-{x.outcome[1]}", f"a worker died and the parent never finishes ({x.outcome[1]})")
    if x.outcome[0] == "exit":
        code = x.outcome[1]
        if code is None or code == 0:
            return ("C13/zero-exit", f"a worker died but the command exits with status {code!r}")
        return None
    return None  # an escaping exception is a non-zero exit status of the CLI


def run_shard(spec, tier, scratch):
    res = fw.ShardResult()
    if spec.get("real_fault"):
        real_fault_runs(res, scratch, spec, tier)
        return res
    c = spec["config"]
    budget = [CAP[tier]]
    from mc import vmp

    probe = vmp.Exec(rc.cfg_for(scratch, c), [], None, want_state=False).run()
    nops = {w.wid: len(w.ops) for w in probe.workers if w.started}
    if probe.uses_sync:
        res.count("configurations_with_shared_semaphores(model only)")
    for fault in faults_for(c, tier, nops)[spec.get("part", 0) :: spec.get("parts", 1)]:
        r = c11.explore_config(
            res, c, scratch, tier, fault=fault, judge_fn=lambda x: judge(x, c["nrec"], fault), tag="C13",
            dev_bound=bounds(tier)["deviation_bound_unpruned"], budget=budget, cap_unpruned=CAP_UNPRUNED[tier],
        )
        res.count("faults")
        if r is not None:
            cfg, picks = r
            # bind the fault model to the OS: run a few of the explored fault schedules on real processes
            if fault[0]["k"] in (0, rc.worker_records(c, fault[0]["w"])) and not c.get("pipe") and not probe.uses_sync:
                c11.real_replays(res, c, cfg, picks, fault, tier, REAL_REPLAYS[tier])
    return res


def finalize(results, tier):
    st = {}
    for r in results:
        for k, v in r.get("stats", {}).items():
            st[k] = st.get(k, 0) + v
    out = {
        "coverage": {
            "faults": st.get("faults", 0),
            "states": st.get("states", 0),
            "transitions": st.get("transitions", 0),
            "traces_validated_against_impl": st.get("traces_validated_against_impl", 0),
            "executions_with_timeout": st.get("executions_with_timeout", 0),
            "explorations_capped": st.get("explorations_capped", 0),
            "unpruned_cross_checks_capped": st.get("unpruned_cross_checks_capped", 0),
        }
    }
    out["coverage"]["real_process_fault_runs"] = st.get("real_process_fault_runs", 0)
    if st.get("traces_validated_against_impl", 0) == 0 and not st.get("configurations_with_shared_semaphores(model only)"):
        out["harness_error"] = "no fault schedule was validated on real processes"
    if st.get("explorations_capped", 0):
        out["coverage"]["exhaustive"] = False
    return out


def replay(case, scratch):
    from mc import vmp

    res = fw.ShardResult()
    if "real_fault" in case:
        tmp = fw.ShardResult()
        real_fault_runs(tmp, scratch, {"shard": 0, "of": 1}, "thorough", only=list(case["real_fault"]))
        return tmp.failures
    c = case["config"]
    cfg = rc.cfg_for(scratch, c)
    x1 = vmp.Exec(cfg, case["schedule"], case.get("fault")).run()
    x2 = vmp.Exec(cfg, case["schedule"], case.get("fault")).run()
    if (x1.trace, x1.outcome, x1.output) != (x2.trace, x2.outcome, x2.output):
        raise fw.HarnessError("the same schedule gave two different executions")
    v = judge(x1, c["nrec"], case.get("fault") or [])
    if v is not None and c.get("pipe"):
        res.fail(v[0], v[1] + f" [model of a pipe holding {c['pipe']} message(s)]", case)
    elif v is not None:
        err = rc.conform_real(cfg, case["schedule"], case.get("fault"), x1)
        if err == "SKIPPED":
            res.fail(v[0], v[1] + " [model only: the code shares semaphores/locks with its workers]", case)
            return res.failures
        if err is not None:
            raise fw.HarnessError(f"counterexample does not reproduce on real processes: {err}")
        res.fail(v[0], v[1] + " [reproduced with real processes, the worker really killed]", case)
    return res.failures
