"""C02 - conversion is lossless: one record per record in order, untouched columns, exact round trips."""

import os
import itertools

from mc import framework as fw
from mc import rgfa
from mc import gen
from mc import conv
from mc.props import c01

ID = "C02"
LEVEL = "exploration"
TECHNIQUE = "bounded-exhaustive enumeration of (layout, GAF file) pairs through two chained view --format runs; differential round-trip oracle"
RULE = (
    "same layouts and walk records as C01; per layout one GAF holding all records (count/order/untouched columns), the chained "
    "conversions u->s->u (must reproduce every canonical record: alignment touches first and last node) and s->u->s on every "
    "stable record gaftools itself emitted, plus every file of <=3 records over a 6-record sub-alphabet (all orders, repeats). "
    "A case is non-trivial when the path has >=2 steps or a reversed step; distinct = distinct (layout, chain, record)."
)
ASSUMPTIONS = c01.ASSUMPTIONS
LEVEL_TEXT = (
    "Both conversion directions are composed on every record of every layout inside the bounds, so an asymmetric off-by-one "
    "that matches neither golden file shows up as a round-trip difference; record count and order are checked on files of "
    "1..N records in every order."
)
LEVEL_NOTE = "Differential oracle (the implementation against itself) plus the byte-level column comparison; needs no model beyond the GAF line grammar."
DESIGN_REF = "DESIGN.md §4 C02"
EXHAUSTIVE = True

bounds = c01.bounds


def plan(tier, seed):
    return c01.plan(tier, seed)


def fail_case(L, chain, lines):
    return {"layout": conv.layout_desc(L), "chain": chain, "records": lines}


def compare_files(res, L, chain, ins, outs, out):
    """count, order and untouched columns for one conversion step; returns parsed outputs or None"""
    if out.kind != "ok":
        res.fail(f"C02/{chain}:{out.sig()}", f"view --format failed on {len(ins)} valid records: {out.brief()}", fail_case(L, chain, [r.line() for r in ins[:30000]]))
        return None
    if len(outs) != len(ins):
        res.fail(f"C02/{chain}:record-count", f"{len(ins)} records in, {len(outs)} records out", fail_case(L, chain, [r.line() for r in ins[:30000]]))
        return None
    parsed = []
    for rin, line in zip(ins, outs):
        res.evaluations += 1
        try:
            rout = rgfa.Rec.parse(line)
        except Exception as e:
            res.fail(f"C02/{chain}:unparsable-line", f"{line!r}: {e}", fail_case(L, chain, [rin.line()]))
            parsed.append(None)
            continue
        parsed.append(rout)
        if rout.qname != rin.qname:
            res.fail(f"C02/{chain}:order", f"record {rin.qname} came out as {rout.qname} (order or identity lost)", fail_case(L, chain, [r.line() for r in ins[:30000]]))
            return None
        for kind, text in conv.judge_untouched(rin, rout):
            res.fail(f"C02/{chain}:{kind}", f"[{L.name}] {rin.line()!r}: {text}", fail_case(L, chain, [rin.line()]))
    return parsed


class _W:
    """a record line with the path column exposed (what shrink_context needs)"""

    def __init__(self, r):
        self.line = r.line() if hasattr(r, "line") and callable(r.line) else r
        self.path = self.line.split("\t")[5]


def _L(recs):
    return [_W(r) for r in recs]


def chain_fails(scratch, gpath, lines, fmt1, fmt2):
    """does the last record of the file fail to come back through the two chained conversions?"""
    o1, a = conv.view_convert(scratch, "".join(l + "\n" for l in lines), gpath, fmt1, "sh1")
    if o1.kind != "ok" or len(a) != len(lines):
        return True
    o2, b = conv.view_convert(scratch, "".join(l + "\n" for l in a), gpath, fmt2, "sh2")
    if o2.kind != "ok" or len(b) != len(lines):
        return True
    return b[-1] != lines[-1]


def run_layout(res, L, tier, scratch):
    g = L.graph("complete")
    gpath = os.path.join(scratch, "g.gfa")
    fw.write_text(gpath, conv.gfa_text(g, L))
    conv.prime_with_sibling(scratch, L)
    maxlen = c01.maxlen_for(L, tier)
    pairs = list(conv.records_for(g, L, maxlen))
    recs = [r for r, st in pairs]
    # step 1: u -> s
    out, S1 = conv.view_convert(scratch, "".join(r.line() + "\n" for r in recs), gpath, "stable", "a")
    P1 = compare_files(res, L, "u2s", recs, S1, out)
    if P1 is None or any(p is None for p in P1):
        return
    # step 2: s -> u on gaftools' own output
    out, U2 = conv.view_convert(scratch, "".join(l + "\n" for l in S1), gpath, "unstable", "b")
    P2 = compare_files(res, L, "s2u", P1, U2, out)
    if P2 is None:
        return
    ncanon = 0
    for (rin, steps), s1, u2 in zip(pairs, S1, U2):
        if gen.canonical_walk(g, steps, rin.ps, rin.pe):
            ncanon += 1
            res.evaluations += 1
            if len(steps) >= 2 or steps[0][0] == "<":
                res.nt(fw.h64(L.name + "usu" + rin.line()))
            if u2 != rin.line():
                ctx = [rin.line()]
                if res.would_keep("C02/u2s2u:roundtrip"):
                    ctx = conv.shrink_context(_L(recs), recs.index(rin), lambda lst: chain_fails(scratch, gpath, [x.line for x in lst], "stable", "unstable"))
                    ctx = [x.line for x in ctx]
                res.fail(
                    "C02/u2s2u:roundtrip",
                    f"[{L.name}] canonical record {rin.line()!r} -> {s1!r} -> {u2!r}" + (f" (only after {len(ctx) - 1} earlier record(s) in the same file)" if len(ctx) > 1 else ""),
                    fail_case(L, "u2s2u", ctx),
                )
    res.count("canonical_records", ncanon)
    # step 3: u -> s again: every stable record gaftools emitted must come back exactly
    out, S3 = conv.view_convert(scratch, "".join(l + "\n" for l in U2), gpath, "stable", "c")
    if out.kind != "ok" or len(S3) != len(S1):
        res.fail(f"C02/s2u2s:{out.sig() if out.kind != 'ok' else 'record-count'}", f"third conversion failed: {out.brief()} ({len(S3)} of {len(S1)} records)", fail_case(L, "s2u2s", S1[:200]))
        return
    for s1, u2, s3 in zip(S1, U2, S3):
        res.evaluations += 1
        res.nt(fw.h64(L.name + "sus" + s1))
        if s3 != s1:
            ctx = [s1]
            if res.would_keep("C02/s2u2s:roundtrip"):
                ctx = conv.shrink_context(_L(P1), S1.index(s1), lambda lst: chain_fails(scratch, gpath, [x.line for x in lst], "unstable", "stable"))
                ctx = [x.line for x in ctx]
            res.fail("C02/s2u2s:roundtrip", f"[{L.name}] gaftools' own stable record {s1!r} -> {u2!r} -> {s3!r}" + (f" (only after {len(ctx) - 1} earlier record(s) in the same file)" if len(ctx) > 1 else ""), fail_case(L, "s2u2s", ctx))
    if recs:
        k = (2 * len(recs)) // 3
        res.sample({"layout": L.name, "u": recs[k].line(), "s": S1[k], "u_again": U2[k]})
    return g, gpath, pairs, S1


def small_files(res, L, scratch):
    """every file of <=3 records over a 6-record sub-alphabet: conversion must not depend on the file around a record"""
    g = L.graph("complete")
    gpath = os.path.join(scratch, "g6.gfa")
    fw.write_text(gpath, g.text())
    allrecs = [(r, st) for r, st in conv.records_for(g, L, 2)]
    step = max(1, len(allrecs) // 6)
    alpha = [allrecs[i][0] for i in range(0, len(allrecs), step)][:6]
    single = {}
    for r in alpha:
        out, lines = conv.view_convert(scratch, r.line() + "\n", gpath, "stable", "one")
        single[r.qname] = lines[0] if out.kind == "ok" and len(lines) == 1 else None
    for k in (1, 2, 3):
        for combo in itertools.product(alpha, repeat=k):
            res.evaluations += 1
            res.count("small_files")
            text = "".join(r.line() + "\n" for r in combo)
            out, lines = conv.view_convert(scratch, text, gpath, "stable", "sf")
            exp = [single[r.qname] for r in combo]
            res.nt(fw.h64("sf" + text))
            if out.kind != "ok" or lines != exp:
                res.fail(
                    "C02/file:context-dependent",
                    f"file of {k} records converts to {len(lines)} lines that differ from the per-record conversions ({out.brief()})",
                    fail_case(L, "file", [r.line() for r in combo]),
                )


def run_shard(spec, tier, scratch):
    res = fw.ShardResult().begin(spec, tier)  # a result may depend on earlier conversions in the process: a failure is re-created by re-running the shard
    res.next_call()
    L = conv.layout_from(spec["layout"])
    run_layout(res, L, tier, scratch)
    if spec.get("extras"):
        small_files(res, gen.Layout((1, 2), "separated2", 1), scratch)
        c01.cli_binding(res, scratch, prop="C02")
    return res


def replay(case, scratch):
    res = fw.ShardResult()
    L = conv.layout_from(case["layout"])
    g = L.graph("complete")
    gpath = os.path.join(scratch, "g.gfa")
    fw.write_text(gpath, conv.gfa_text(g, L))
    conv.prime_with_sibling(scratch, L)
    chain = case.get("chain")
    lines = case["records"]
    text = "".join(l + "\n" for l in lines)
    if chain == "file":
        single = []
        for l in lines:
            out, o = conv.view_convert(scratch, l + "\n", gpath, "stable", "one")
            single.append(o[0] if o else None)
        out, o = conv.view_convert(scratch, text, gpath, "stable", "sf")
        if out.kind != "ok" or o != single:
            res.fail("C02/file:context-dependent", "file conversion differs from per-record conversion", case)
        return res.failures
    if chain in ("u2s", "u2s2u"):
        ins = [rgfa.Rec.parse(l) for l in lines]
        out, S1 = conv.view_convert(scratch, text, gpath, "stable", "a")
        P1 = compare_files(res, L, "u2s", ins, S1, out)
        if chain == "u2s2u" and P1 is not None:
            out, U2 = conv.view_convert(scratch, "".join(l + "\n" for l in S1), gpath, "unstable", "b")
            if out.kind != "ok" or U2 != lines:
                res.fail("C02/u2s2u:roundtrip", f"{lines} -> {S1} -> {U2}", case)
        return res.failures
    if chain in ("s2u", "s2u2s"):
        ins = [rgfa.Rec.parse(l) for l in lines]
        out, U2 = conv.view_convert(scratch, text, gpath, "unstable", "b")
        P2 = compare_files(res, L, "s2u", ins, U2, out)
        if chain == "s2u2s":
            if P2 is None:
                res.fail(f"C02/s2u2s:{out.sig() if out.kind != 'ok' else 'record-count'}", "conversion failed", case)
            else:
                out, S3 = conv.view_convert(scratch, "".join(l + "\n" for l in U2), gpath, "stable", "c")
                if out.kind != "ok" or S3 != lines:
                    res.fail("C02/s2u2s:roundtrip", f"{lines} -> {U2} -> {S3}", case)
        return res.failures
    if chain == "cli" or case.get("direction") == "cli":
        return c01.replay(case, scratch, prop="C02")
    return res.failures
