"""C10 - sort writes a usable per-chromosome index next to the sorted GAF."""

import os
import itertools

from mc import framework as fw
from mc import rgfa
from mc import sortcommon as sc
from mc import viewidx as vi
from mc.props import c09

ID = "C10"
LEVEL = "exploration"
TECHNIQUE = "bounded-exhaustive enumeration of (tagged graph, record set, output mode, index path) through run_sort; offsets resolved by seeking the sorted file"
RULE = (
    "graphs: 1-3 chromosome bubble chains (hand-tagged) x record sets {every record touches a reference node; some touch none; all touch "
    "none; every subset-by-chromosome of the chromosomes present} x record order {as generated, reversed} x output {plain, --bgzip, "
    ">64 KiB plain, >64 KiB --bgzip (several BGZF blocks)} x index path {default <outgaf>.gsi, --outind <path>, --outind <bare name> from another working directory}; one record set already carries bo/sn/iv fields of an earlier sort. evaluations = sort runs; "
    "non-trivial = runs whose output holds >=2 contigs or no 'unknown' record or spans several BGZF blocks."
)
ASSUMPTIONS = [
    "presence or absence of an 'unknown' key in the index is unconstrained",
    "offsets are resolved the way a consumer would: plain seek for text output, BGZF virtual offsets through pysam for --bgzip output",
]
LEVEL_TEXT = (
    "Every combination inside the bounds is run through the real command; the index is loaded and each stored offset is resolved by "
    "seeking the sorted file, for text and multi-block BGZF output. The file shape the suite never uses (no alignment without a "
    "reference node) is part of the enumerated space."
)
LEVEL_NOTE = "Trusts the sn model of mc/sortcommon.py and pysam's BGZF reader for resolving virtual offsets."
DESIGN_REF = "DESIGN.md §4 C10"
EXHAUSTIVE = True


def bounds(tier):
    return {"max_steps": 3 if tier == "quick" else 4, "chromosomes": [1, 2, 3]}


def plan(tier, seed):
    specs = []
    for nchrom in (1, 2, 3):
        for mode in ("small", "big"):
            specs.append({"nchrom": nchrom, "mode": mode})
    return specs


def record_sets(g, chains, maxlen):
    per = {}
    n = 0
    for ch in chains:
        rs = sc.chain_walk_records(g, list(ch.g.segs), maxlen, start_ordinal=n)
        n += len(rs)
        per[ch.chrom] = rs
    ref = {c: [r for r in rs if sc.sort_key(g, r)["sn"] != "unknown"] for c, rs in per.items()}
    unk = [r for rs in per.values() for r in rs if sc.sort_key(g, r)["sn"] == "unknown"]
    unk.append(sc.rec_on(g, f"w{n}", ">u1", 1, 4))
    sets = []
    chroms = list(per)
    for k in range(1, len(chroms) + 1):
        for sub in itertools.combinations(chroms, k):
            allref = [r for c in sub for r in ref[c]]
            sets.append((f"all-touch-reference[{','.join(sub)}]", allref))
            sets.append((f"some-touch-none[{','.join(sub)}]", allref + unk))
    sets.append(("none-touch-reference", unk))
    # the output of an earlier sort against another build of the graph (other contig names) is sorted again: every record
    # already carries bo/sn/iv fields
    stale = [rgfa.Rec(*r.cols(), opt=list(r.opt) + ["bo:i:5", f"sn:Z:CHM13#0#{sc.sort_key(g, r)['sn']}", "iv:i:0"]) for c in chroms for r in ref[c]]
    sets.append(("already-sorted-against-another-build", stale + unk[:1]))
    # every contig contributes exactly one record / one contig has one record and the others many
    ones = [ref[c][0] for c in chroms if ref[c]]
    sets.append(("one-record-per-contig", ones))
    if len(chroms) >= 2 and ref[chroms[0]] and ref[chroms[1]]:
        sets.append(("single-record-contig-among-others", ref[chroms[0]][:1] + ref[chroms[1]] + unk[:1]))
    return sets


def resolve(path, bgzip, off):
    if bgzip:
        from pysam import libcbgzf

        f = libcbgzf.BGZFile(path, "rb")
        try:
            f.seek(off)
            line = f.readline()
        finally:
            f.close()
        return line.decode() if isinstance(line, bytes) else line
    with open(path, "rb") as f:
        f.seek(off)
        return f.readline().decode().rstrip("\n")


HIST = []  # earlier sort calls of this process: a failure may depend on them
CTX = {"n": 0, "stop": None, "spec": None, "tier": None}


class _Stop(Exception):
    pass


def judge(res, g, setname, recs, bgzip, use_outind, scratch, big=False, record_history=True, gz_input=False):
    if record_history and CTX["stop"] is not None and CTX["n"] >= CTX["stop"]:
        raise _Stop()
    gfa_path = os.path.join(scratch, "g.gfa")
    fw.write_text(gfa_path, g.text())
    gaf = os.path.join(scratch, "in.gaf" + (".gz" if gz_input else ""))
    if gz_input:
        vi.write_gaf(gaf, "".join(r.line() + "\n" for r in recs), ("bgzip64k",))  # the input itself is BGZF of several blocks
    else:
        fw.write_text(gaf, "".join(r.line() + "\n" for r in recs))
    outp = os.path.join(scratch, "s.gaf" + (".gz" if bgzip else ""))
    outind = os.path.join(scratch, "custom.idx") if use_outind else None
    cwd = None
    if use_outind == "bare":
        # a bare file name for --outind: it belongs into the current directory, which is not that of --outgaf
        cwd = os.getcwd()
        os.makedirs(os.path.join(scratch, "cwd"), exist_ok=True)
        os.chdir(os.path.join(scratch, "cwd"))
        outind = "bare.idx"
    if use_outind == "symlink":
        # --outgaf is a symbolic link to a file in another directory; the default index belongs next to the link
        outind = None
        os.makedirs(os.path.join(scratch, "store"), exist_ok=True)
        target = os.path.join(scratch, "store", "run1.gaf" + (".gz" if bgzip else ""))
        open(target, "wb").close()
        outp = os.path.join(scratch, "link.gaf" + (".gz" if bgzip else ""))
        if os.path.lexists(outp):
            os.remove(outp)
        os.symlink(target, outp)
    idx_path = os.path.abspath(outind) if outind else (outp + ".gsi")
    for p in (idx_path, os.path.join(scratch, "bare.idx")):
        if os.path.exists(p):
            os.remove(p)
    try:
        if use_outind == "symlink":
            from gaftools.cli import sort as _sort

            for pth in (outp + ".gsi", target + ".gsi"):
                if os.path.exists(pth):
                    os.remove(pth)
            out = fw.guarded(_sort.run_sort, gfa=gfa_path, gaf=gaf, outgaf=outp, outind=None, bgzip=bgzip)
        else:
            out = sc.run_sort(scratch, gfa_path, gaf, outgaf=outp, outind=outind, bgzip=bgzip)
    finally:
        if cwd is not None:
            os.chdir(cwd)
    res.evaluations += 1
    case = {"gfa": g.text(), "records": [r.line() for r in recs], "bgzip": bgzip, "outind": use_outind, "set": setname, "gz_input": gz_input}
    if big:
        case["records"] = [rgfa.Rec.parse(l).line() for l in case["records"][:40]]
        case["padded_to_bytes"] = 200_000
    if record_history:
        # the failing call is identified by its position in this shard's deterministic call sequence, so that a replay
        # can re-create everything the process did before it (state leaking between calls)
        CTX["n"] += 1
        case["call_sequence"] = {"spec": CTX["spec"], "tier": CTX["tier"], "index": CTX["n"]}
    where = f"[{setname}, {'bgzip' if bgzip else 'plain'}{', >64KiB' if big else ''}, {('--outgaf is a symlink, default .gsi' if use_outind == 'symlink' else '--outind ' + ('bare.idx (relative)' if use_outind == 'bare' else '<path>')) if use_outind else 'default .gsi'}]"
    if out.kind != "ok":
        res.fail(f"C10/sort-failed:{out.sig()}", f"{where} sort does not complete: {out.brief()}", case)
        return
    if not os.path.exists(idx_path):
        res.fail("C10/index-missing", f"{where} no index file at {os.path.basename(idx_path)}", case)
        return
    try:
        idx = sc.load_pickle(idx_path)
        lines = sc.read_lines(outp, gz=bgzip)
    except Exception as e:
        res.fail("C10/unreadable", f"{where} {type(e).__name__}: {e}", case)
        return
    sn_of = []
    for l in lines:
        f = [x for x in l.split("\t") if x.startswith("sn:Z:")]
        sn_of.append(f[-1][5:] if f else None)
    contigs = [c for c in dict.fromkeys(sn_of) if c not in (None, "unknown")]
    if len(contigs) >= 2 or "unknown" not in sn_of or big:
        res.nt(fw.h64([setname, bgzip, use_outind, big, len(recs)]))
    if "unknown" not in sn_of:
        res.count("runs_without_unknown_record")
    for c in contigs:
        if c not in idx:
            res.fail("C10/contig-missing", f"{where} contig {c} is in the output but has no index entry (keys {sorted(map(str, idx))})", case)
            continue
        ent = idx[c]
        first = sn_of.index(c)
        last = len(sn_of) - 1 - sn_of[::-1].index(c)
        try:
            got_first, got_last = resolve(outp, bgzip, ent[0]), resolve(outp, bgzip, ent[1])
        except Exception as e:
            res.fail("C10/bad-offset", f"{where} index[{c}] = {list(ent)} cannot be resolved: {type(e).__name__}: {e}", case)
            continue
        if got_first != lines[first] or got_last != lines[last]:
            res.fail(
                "C10/wrong-offset",
                f"{where} index[{c}] = {list(ent)} resolves to records {got_first.split(chr(9))[0]!r}/{got_last.split(chr(9))[0]!r}, the first/last records of {c} are "
                f"{lines[first].split(chr(9))[0]!r}/{lines[last].split(chr(9))[0]!r}",
                case,
            )
    for k in idx:
        if k != "unknown" and k not in contigs:
            res.fail("C10/extra-key", f"{where} index has key {k!r} but the output holds no record of it", case)


def run_shard(spec, tier, scratch):
    res = fw.ShardResult()
    CTX.update(n=0, stop=None, spec=spec, tier=tier)
    _run(res, spec, tier, scratch)
    return res


def _run(res, spec, tier, scratch):
    g, chains = c09.build(spec["nchrom"])
    # the process has seen a sort call that failed (a GAF naming a segment the graph does not have) before the valid ones
    bad_gaf = os.path.join(scratch, "bad.gaf")
    fw.write_text(bad_gaf, "x\t3\t0\t3\t+\t>nosuchsegment\t3\t0\t3\t3\t3\t60\n")
    fw.write_text(os.path.join(scratch, "g.gfa"), g.text())
    sc.run_sort(scratch, os.path.join(scratch, "g.gfa"), bad_gaf, outgaf=os.path.join(scratch, "bad.sorted.gaf"))
    sets = record_sets(g, chains, bounds(tier)["max_steps"])
    for setname, recs in sets:
        if not recs:
            continue
        if spec["mode"] == "small":
            orders = [recs, recs[::-1]]
            if tier == "thorough":
                # every rotation of the record list as well (which record comes first/last per contig changes)
                orders += [recs[k:] + recs[:k] for k in range(1, len(recs), max(1, len(recs) // 12))]
            for order in orders:
                for bgzip in (False, True):
                    for use_outind in (False, True) + (("bare", "symlink") if order is recs else ()):
                        judge(res, g, setname, order, bgzip, use_outind, scratch)
        else:
            big = vi.pad_records(recs[:40], 200_000)
            for bgzip in (False, True):
                judge(res, g, setname, big, bgzip, False, scratch, big=True)
                res.count("outputs_over_64k")
            judge(res, g, setname, big, False, False, scratch, big=True, gz_input=True)
            res.count("bgzf_inputs_over_64k")
    res.sample({"chromosomes": spec["nchrom"], "record_sets": [(n, len(r)) for n, r in sets]})
    return res


def replay(case, scratch):
    res = fw.ShardResult()
    g = rgfa.Graph.parse(case["gfa"])
    recs = [rgfa.Rec.parse(l) for l in case["records"]]
    big = "padded_to_bytes" in case
    if big:
        recs = vi.pad_records(recs, case["padded_to_bytes"])
    cs = case.get("call_sequence")
    if cs and cs.get("spec"):
        # re-run the shard's calls up to and including the failing one; only that call's verdict counts
        CTX.update(n=0, stop=cs["index"], spec=cs["spec"], tier=cs["tier"])
        tmp = fw.ShardResult()
        try:
            _run(tmp, cs["spec"], cs["tier"], scratch)
        except _Stop:
            pass
        return [f for f in tmp.failures if f["case"].get("call_sequence", {}).get("index") == cs["index"]]
    judge(res, g, case.get("set", "replay"), recs, case["bgzip"], case["outind"], scratch, big=big, record_history=False, gz_input=bool(case.get("gz_input")))
    return res.failures
