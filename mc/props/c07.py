"""C07 - order_gfa and GFA I/O preserve the graph."""

import os
import itertools
import collections

from mc import framework as fw
from mc import rgfa
from mc import gen
from mc import ordercommon as oc

ID = "C07"
LEVEL = "exploration"
TECHNIQUE = "bounded-exhaustive enumeration of GFA files (links, declarations, overlaps, tags, line orders, other record types) through read_graph/write_gfa and order_gfa, outputs parsed by an independent reader"
RULE = (
    "(i) order_gfa on every chain of <=K blocks (as C06) x link declaration x {--with-sequence} x {--by-chrom}, stale BO/NO tags, 1-2 "
    "chromosomes: output segments/links/CSV compared with the input; (ii) load + write_gfa + reload over every GFA with <=3 nodes and <=L links "
    "out of the 21 node-side pairs (self links, all four orientations, either declaration), overlaps 0M/5M/12M by link position, every "
    "tag set of <=2 from an S-tag alphabet (ints, floats, Z with ':' '#' '.', B arrays, H, A) and an L-tag alphabet, H/P/W/# lines "
    "interleaved, the line-order family. evaluations = files processed; non-trivial = files with >=1 link or >=1 tag."
)
ASSUMPTIONS = [
    "exact duplicate L lines are not in the alphabet (they denote the same link; the loader's set semantics merges them)",
    "two declarations are the same link iff they join the same unordered pair of node sides; link multisets are compared modulo that",
    "segment sequences are ACGT strings or '*'",
]
LEVEL_TEXT = (
    "Every small GFA inside the bounds - including '-'/'-' links, self links, tag-less links, links given from either end and tag values "
    "with punctuation - is pushed through the real loader and writer and re-read by an independent parser, and every order_gfa output is "
    "compared with its input segment by segment and link by link; the single golden-file test uses the library's own loader and equality."
)
LEVEL_NOTE = "Trusts the GFA1 line grammar in mc/rgfa.py (TAG:TYPE:VALUE with the value being everything after the second colon)."
DESIGN_REF = "DESIGN.md §4 C07"
EXHAUSTIVE = True

S_TAGS = ["LN:i:3", "SN:Z:chr1", "SO:i:0", "SR:i:0", "xf:f:-0.5", "zs:Z:a:b#c.d", "ba:B:i,1,-2", "hx:H:1AE3", "ch:A:*", "xi:i:-7", "co:Z:two words", "rc:i:+12", "kc:i:007", "dp:f:1e-3", "df:f:.50"]
L_TAGS = ["SR:i:0", "L1:i:3", "zs:Z:x:y", "fl:f:1e-05", "ba:B:f,0.5", "co:Z:checked by hand"]
OVERLAPS = ["0M", "5M", "12M"]
OTHER = ["H\tVN:Z:1.0", "# a comment", "P\tp1\ts1+,s2+\t*", "W\tsample\t1\tchr1\t0\t5\t>s1>s2"]
NSHARD = {"quick": 16, "thorough": 64}


def bounds(tier):
    if tier == "quick":
        return {"max_blocks": 2, "rt_nodes2_links": 2, "rt_nodes3_links": 1}
    return {"max_blocks": 3, "rt_nodes2_links": 4, "rt_nodes3_links": 3}


def plan(tier, seed):
    n = NSHARD[tier]
    specs = [{"part": "roundtrip", "shard": i, "of": n} for i in range(n)]
    specs += [{"part": "order", "shard": i, "of": n} for i in range(n)]
    specs.append({"part": "tags"})
    specs.append({"part": "wide"})
    if tier == "thorough":
        # set iteration order (which depends on string hashing) decides the order in which links are written: second seed
        specs += [dict(x, hashseed=1) for x in list(specs)]
    return specs


# ----------------------------------------------------------------------------------------------
# comparison of two graphs read by the independent reader


def seg_view(s, drop=("BO", "NO")):
    return (s.id, s.seq, tuple(t for t in s.tags if t[0] not in drop))


def compare_graphs(gin, gout, nodes=None, with_seq=True, added=("BO", "NO")):
    """-> list of (kind, text). gin restricted to `nodes`; tags in `added` are ignored on both sides."""
    bad = []
    want = {s.id: s for s in gin.segs.values() if nodes is None or s.id in nodes}
    got = gout.segs
    for i in want:
        if i not in got:
            bad.append(("segment-lost", f"segment {i} missing from the output"))
    for i in got:
        if i not in want:
            bad.append(("segment-invented", f"segment {i} is not in the input (component)"))
    for i in want:
        if i in got:
            a, b = want[i], got[i]
            seq_want = a.seq if with_seq else "*"
            if b.seq != seq_want:
                bad.append(("sequence", f"segment {i}: sequence {b.seq[:20]!r}, expected {seq_want[:20]!r}"))
            ta = [t for t in a.tags if t[0] not in added]
            tb = [t for t in b.tags if t[0] not in added]
            if ta != tb:
                bad.append(("segment-tags", f"segment {i}: tags {tb}, input had {ta}"))
    lw = collections.Counter(l.key() for l in gin.links if (nodes is None or (l.a in nodes and l.b in nodes)) and l.a in gin.segs and l.b in gin.segs)
    lg = collections.Counter(l.key() for l in gout.links)
    if lw != lg:
        lost = list((lw - lg).elements())[:3]
        extra = list((lg - lw).elements())[:3]
        sides_w = collections.Counter(k[0] for k in lw.elements())
        sides_g = collections.Counter(k[0] for k in lg.elements())
        if sides_w == sides_g:
            bad.append(("link-attributes", f"same links but overlaps/tags differ: input-only {lost}, output-only {extra}"))
        else:
            if lost:
                bad.append(("link-lost", f"links missing from the output: {lost}"))
            if extra:
                bad.append(("link-invented-or-duplicated", f"links only in the output: {extra}"))
    return bad


def s_before_l(text):
    seen_l = False
    for line in text.split("\n"):
        if line.startswith("L"):
            seen_l = True
        elif line.startswith("S") and seen_l:
            return False
    return True


# ----------------------------------------------------------------------------------------------
# (ii) read -> write -> reload


def roundtrip(res, scratch, text, what, low_memory=False, gz_members=0):
    from gaftools.gfa import GFA

    inp = os.path.join(scratch, "rt.gfa")
    outp = os.path.join(scratch, "rt-out.gfa")
    if gz_members:
        # the same text as a gzip file of several members (what bgzip writes, or `cat a.gfa.gz b.gfa.gz`), cut inside a line
        import gzip

        inp += ".gz"
        data = text.encode()
        cuts = [len(data) * i // gz_members + (3 if 0 < i < gz_members else 0) for i in range(gz_members + 1)]
        with open(inp, "wb") as f:
            for a, b in zip(cuts, cuts[1:]):
                f.write(gzip.compress(data[a:b]))
    else:
        fw.write_text(inp, text)
    if os.path.exists(outp):
        os.remove(outp)
    res.evaluations += 1
    res.next_call()
    case = {"mode": "roundtrip", "gfa": text, "gz_members": gz_members}
    o = fw.guarded(GFA, inp)
    if o.kind != "ok":
        res.fail(f"C07/load:{o.sig()}", f"{what}: loading a valid GFA failed: {o.brief()}", case)
        return
    G = o.value
    o2 = fw.guarded(G.write_gfa, output_file=outp)
    if o2.kind != "ok":
        res.fail(f"C07/write:{o2.sig()}", f"{what}: write_gfa failed: {o2.brief()}", case)
        return
    out_text = open(outp).read()
    gin, gout = rgfa.Graph.parse(text), rgfa.Graph.parse(out_text)
    if gin.links or any(s.tags for s in gin.segs.values()):
        res.nt(fw.h64(text))
    for kind, t in compare_graphs(gin, gout, added=()):
        res.fail(f"C07/roundtrip:{kind}", f"{what}: {t}", case)
    if not s_before_l(out_text):
        res.fail("C07/roundtrip:S-after-L", f"{what}: an S line follows an L line in the written file", case)
    o3 = fw.guarded(GFA, outp)
    if o3.kind != "ok":
        res.fail(f"C07/reload:{o3.sig()}", f"{what}: the written file does not load: {o3.brief()}", case)
    elif not (G.is_equal_to(o3.value) and o3.value.is_equal_to(G)):
        res.fail("C07/roundtrip:not-equal", f"{what}: the written file loads to a graph that is not is_equal_to the original", case)


def side_pairs(ids):
    sides = [(n, s) for n in ids for s in (0, 1)]
    return list(itertools.combinations_with_replacement(sides, 2))


def rt_graphs(ids, max_links):
    pairs = side_pairs(ids)
    for k in range(0, max_links + 1):
        for combo in itertools.combinations(range(len(pairs)), k):
            for flips in itertools.product((False, True), repeat=k):
                yield [(pairs[i], f) for i, f in zip(combo, flips)]


def rt_text(ids, choice, variant):
    g = rgfa.Graph()
    for i, n in enumerate(ids):
        tags = [rgfa.split_tag(t) for t in (S_TAGS[(i * 3 + variant) % len(S_TAGS)], S_TAGS[(i * 3 + variant + 4) % len(S_TAGS)])] if variant % 2 else []
        g.add_seg(n, ["ACGT", "GGA", "TTCAG"][i], tags)
    for j, (pair, flipped) in enumerate(choice):
        (a, sa), (b, sb) = pair
        l = rgfa.Link(a, "+" if sa == 1 else "-", b, "+" if sb == 0 else "-", OVERLAPS[(j + variant) % 3],
                      [L_TAGS[(j + variant) % len(L_TAGS)]] if (j + variant) % 3 else [])
        g.links.append(l.flipped() if flipped else l)
    lines = g.lines()
    if variant == 2:
        # other record types interleaved
        lines = [OTHER[0]] + lines[:1] + [OTHER[1], OTHER[2]] + lines[1:] + [OTHER[3]]
    return lines


def roundtrip_part(res, spec, tier, scratch):
    b = bounds(tier)
    gi = 0
    for ids, ml in ((["s1", "s2"], b["rt_nodes2_links"]), (["s1", "s10", "s2"], b["rt_nodes3_links"])):
        for choice in rt_graphs(ids, ml):
            for variant in (0, 1, 2):
                gi += 1
                if gi % spec["of"] != spec["shard"]:
                    continue
                lines = rt_text(ids, choice, variant)
                res.count("roundtrip_graphs")
                orders = list(gen.line_orders(len(lines), len(ids))) if len(lines) <= 4 else [list(range(len(lines))), list(range(len(lines)))[::-1]]
                for oi, order in enumerate(orders):
                    text = "".join(lines[i] + "\n" for i in order)
                    if (gi + oi) % 3 == 1:
                        text = text[:-1]  # some files end without a newline
                    roundtrip(res, scratch, text, f"{len(ids)} nodes, {len(choice)} links, variant {variant}")
    if spec["shard"] == 0:
        res.sample({"roundtrip_file": rt_text(["s1", "s2"], [(side_pairs(["s1", "s2"])[4], True), (side_pairs(["s1", "s2"])[7], False)], 2)})


def tags_part(res, scratch):
    """every tag set of <=2 on S lines and on L lines of a fixed 2-node graph"""
    for k in (0, 1, 2):
        for ts in itertools.permutations(S_TAGS, k):
            lines = ["S\ts1\tACGT" + "".join("\t" + t for t in ts), "S\ts2\tGGA", "L\ts1\t+\ts2\t-\t3M"]
            roundtrip(res, scratch, "".join(l + "\n" for l in lines), f"S tags {ts}")
            res.count("s_tag_sets")
        for ts in itertools.permutations(L_TAGS, k):
            for ov in OVERLAPS:
                lines = ["S\ts1\tACGT", "S\ts2\tGGA", f"L\ts2\t-\ts1\t-\t{ov}" + "".join("\t" + t for t in ts)]
                roundtrip(res, scratch, "".join(l + "\n" for l in lines), f"L tags {ts} overlap {ov}")
                res.count("l_tag_sets")
    # two links between the same node sides that differ only in overlap (distinct links in GFA terms)
    lines = ["S\ts1\tACGT", "S\ts2\tGGA", "L\ts1\t+\ts2\t+\t0M\tx1:i:1", "L\ts1\t+\ts2\t+\t5M\tx2:i:2"]
    roundtrip(res, scratch, "".join(l + "\n" for l in lines), "parallel links differing only in overlap")
    lines = ["S\ts1\tACGT\tLN:i:4", "S\ts2\tGGA", "S\ts3\tTT\tzs:Z:a:b", "L\ts1\t+\ts2\t+\t0M\tx1:i:1", "L\ts2\t+\ts3\t-\t0M", "L\ts3\t+\ts3\t+\t1M"]
    for members in (1, 2, 3):
        roundtrip(res, scratch, "".join(l + "\n" for l in lines), f"gzip file of {members} member(s)", gz_members=members)
        res.count("gzip_graphs_loaded")


# ----------------------------------------------------------------------------------------------
# (i) order_gfa outputs


def judge_order_outputs(res, scratch, g, chains, chrom_order, by_chrom, with_sequence, what, second_run=False, lfirst_nonl=False):
    res.next_call()
    gtext = g.text()
    if lfirst_nonl:
        # L lines first, S lines after them, no newline after the last line
        ls = [l for l in gtext.split("\n") if l]
        gtext = "".join(l + "\n" for l in [x for x in ls if x.startswith("L")] + [x for x in ls if not x.startswith("L")])[:-1]
    run = oc.run_order(scratch, gtext, chrom_order, by_chrom=by_chrom, with_sequence=with_sequence)
    if second_run:
        # the same command once more into the directory that now holds the first run's files: what is judged is the second result
        run = oc.run_order(scratch, g.text(), chrom_order, by_chrom=by_chrom, with_sequence=with_sequence, keep_outdir=True)
        res.count("second_runs_into_the_same_directory")
    res.evaluations += 1
    case = {"mode": "order", "gfa": g.text(), "chromosome_order": chrom_order, "by_chrom": by_chrom, "with_sequence": with_sequence, "second_run": second_run, "lfirst_nonl": lfirst_nonl}
    if run.outcome.kind != "ok":
        res.fail(f"C07/order:failed:{run.outcome.sig()}", f"{what}: {run.outcome.brief()}", case)
        return
    res.nt(fw.h64([g.text(), chrom_order, by_chrom, with_sequence]))
    req = chrom_order.split(",")
    if by_chrom:
        outs = [(c.chrom, run.gfa(c.chrom), run.csv_rows(c.chrom), set(c.g.segs)) for c in chains if c.chrom in req]
    else:
        nodes = set()
        for c in chains:
            if c.chrom in req:
                nodes |= set(c.g.segs)
        outs = [("complete", run.gfa("complete"), run.csv_rows("complete"), nodes)]
    for name, text, rows, nodes in outs:
        if text is None:
            res.fail("C07/order:no-output", f"{what}: no GFA written for {name} ({run.files})", case)
            continue
        gout = rgfa.Graph.parse(text)
        slines = [l.split("\t")[1] for l in text.split("\n") if l.startswith("S\t")]
        if len(slines) != len(set(slines)):
            res.fail("C07/order:duplicated-segments", f"{what} [{name}]: {len(slines)} S lines for {len(set(slines))} segments", case)
        for kind, t in compare_graphs(g, gout, nodes=nodes, with_seq=with_sequence):
            res.fail(f"C07/order:{kind}", f"{what} [{name}]: {t}", case)
        for s in gout.segs.values():
            extra = [t[0] for t in s.tags if t[0] in ("BO", "NO")]
            if sorted(extra) != ["BO", "NO"]:
                res.fail("C07/order:BO-NO-tags", f"{what} [{name}]: segment {s.id} carries BO/NO tags {extra} (exactly one of each expected)", case)
        if not s_before_l(text):
            res.fail("C07/order:S-after-L", f"{what} [{name}]: an S line follows an L line", case)
        keys = [(int(s.tag("BO")), int(s.tag("NO"))) for s in gout.segs.values() if s.tag("BO") is not None and s.tag("NO") is not None]
        if keys != sorted(keys):
            res.fail("C07/order:S-lines-not-sorted", f"{what} [{name}]: S lines are not in (BO, NO) order: {keys[:8]}", case)
        if rows is None:
            res.fail("C07/order:no-csv", f"{what} [{name}]: no CSV written ({run.files})", case)
            continue
        body = [r for r in rows if r and r[0] != "Name"]
        names = [r[0] for r in body]
        if sorted(names) != sorted(nodes):
            res.fail("C07/order:csv-nodes", f"{what} [{name}]: CSV lists {len(names)} rows for {len(nodes)} nodes (duplicates or omissions: {sorted(set(nodes) ^ set(names))[:4]})", case)
            continue
        arts = set()
        for c in chains:
            arts |= {x for k, x in c.order if k == "s"}
        for r in body:
            nid, color, sn, so, bo, no = r[:6]
            s = gout.segs.get(nid)
            if s is None:
                continue
            if (bo, no) != (s.tag("BO"), s.tag("NO")):
                res.fail("C07/order:csv-values", f"{what} [{name}]: CSV says {nid} BO/NO = {bo}/{no}, the GFA says {s.tag('BO')}/{s.tag('NO')}", case)
            role = "orange" if nid in arts else "blue"
            if color != role:
                res.fail("C07/order:csv-role", f"{what} [{name}]: CSV colours {nid} {color}, it is a {'scaffold' if nid in arts else 'bubble'} node ({role})", case)


def order_part(res, spec, tier, scratch):
    b = bounds(tier)
    i = 0
    second = gen.Chain(["deletion"], chrom="chr2", id_base=40, hap="hB#1#c", decl="rev")
    specs = [[]] + list(gen.chains(b["max_blocks"]))
    for bl in specs:
        for decl in ("fwd", "rev", "alt"):
            i += 1
            if i % spec["of"] != spec["shard"]:
                continue
            c = gen.Chain(bl, decl=decl, ends=("tip", "open") if len(bl) % 2 else ("tip", "tip"), self_links=(i % 3 == 0))
            name = f"{'-'.join(bl) or 'no-block'}|{decl}"
            for by_chrom in (True, False):
                for with_seq in (False, True):
                    judge_order_outputs(res, scratch, c.g, [c], "chr1", by_chrom, with_seq, f"[{name}] by_chrom={by_chrom} with_sequence={with_seq}")
            judge_order_outputs(res, scratch, oc.stale_tagged(c.g), [c], "chr1", True, True, f"[{name}] stale BO/NO tags")
            judge_order_outputs(res, scratch, c.g, [c], "chr1", True, True, f"[{name}] L lines first, no final newline", lfirst_nonl=True)
            # the same chain with every haplotype (rank > 0) segment stripped of its tags (plain GFA segments inside an rGFA)
            bare = rgfa.Graph()
            for sg in c.g.segs.values():
                bare.add_seg(sg.id, sg.seq, list(sg.tags) if sg.SR == 0 else [])
            bare.links = list(c.g.links)
            if sum(1 for sg in bare.segs.values() if not sg.tags) >= 2:
                class CB:
                    pass

                cb = CB()
                cb.g, cb.chrom, cb.order = bare, c.chrom, c.order
                judge_order_outputs(res, scratch, bare, [cb], "chr1", True, True, f"[{name}] haplotype segments without tags")
                res.count("runs_with_tagless_segments")
            # a chromosome that is one segment (chrM): ordered, tagged and written like any other
            mg = rgfa.Graph()
            mg.add_seg("m1", "ACGTACGT", [("LN", "i", "8"), ("SN", "Z", "chrM"), ("SO", "i", "0"), ("SR", "i", "0"), ("rc", "i", "+12")])

            class CM:
                pass

            cm = CM()
            cm.g, cm.chrom, cm.order = mg, "chrM", [("s", "m1")]
            g3 = gen.merge_graphs([c.g, mg])
            for by_chrom in (True, False):
                judge_order_outputs(res, scratch, g3, [c, cm], "chrM,chr1", by_chrom, True, f"[{name}+single-segment chrM] by_chrom={by_chrom}")
            g2 = gen.merge_graphs([c.g, second.g])
            for req in ("chr1,chr2", "chr2,chr1", "chr2"):
                for by_chrom in (True, False):
                    judge_order_outputs(res, scratch, g2, [c, second], req, by_chrom, True, f"[{name}+deletion] --chromosome_order {req} by_chrom={by_chrom}")
            judge_order_outputs(res, scratch, g2, [c, second], "chr2,chr1", False, True, f"[{name}+deletion] --chromosome_order chr2,chr1, run twice into one directory", second_run=True)
            if spec["shard"] == 2:
                res.sample({"order_gfa_input": c.g.lines()[:5] + ["..."], "options": ["--by-chrom", "--with-sequence", "--chromosome_order chr2,chr1"]})


def wide_bubble(res, scratch, n_alleles=1005):
    """one bubble with more than 1000 alleles between two scaffold nodes (NO runs to four digits)"""
    g = rgfa.Graph()
    g.add_seg("t0", "TT", [("LN", "i", "2"), ("SN", "Z", "chr1"), ("SO", "i", "0"), ("SR", "i", "0")])
    g.add_seg("a", "ACGT", [("LN", "i", "4"), ("SN", "Z", "chr1"), ("SO", "i", "2"), ("SR", "i", "0")])
    g.add_seg("r", "C", [("LN", "i", "1"), ("SN", "Z", "chr1"), ("SO", "i", "6"), ("SR", "i", "0")])
    g.add_seg("b", "GGTT", [("LN", "i", "4"), ("SN", "Z", "chr1"), ("SO", "i", "7"), ("SR", "i", "0")])
    g.add_seg("t1", "AA", [("LN", "i", "2"), ("SN", "Z", "chr1"), ("SO", "i", "11"), ("SR", "i", "0")])
    g.add_link("t0", "+", "a", "+", "0M")  # the scaffold nodes a and b are articulation points only with something beyond them
    g.add_link("b", "+", "t1", "+", "0M")
    g.add_link("a", "+", "r", "+", "0M")
    g.add_link("r", "+", "b", "+", "0M")
    inner = ["r"]
    for i in range(n_alleles - 1):
        nid = f"v{i:04d}"
        g.add_seg(nid, "ACGT"[i % 4], [("LN", "i", "1"), ("SN", "Z", f"h{i}#1#c"), ("SO", "i", str(7 * i)), ("SR", "i", str(1 + i % 9))])
        g.add_link("a", "+", nid, "+", "0M")
        g.add_link(nid, "+", "b", "+", "0M")
        inner.append(nid)

    class C:
        pass

    c = C()
    # (the brute-force chain model is exponential in the bubble width; the chain of this graph is known by construction and
    # the same shape with 3, 6 and 9 alleles was compared with the model)
    c.g, c.chrom, c.order = g, "chr1", [("b", frozenset({"t0"})), ("s", "a"), ("b", frozenset(inner)), ("s", "b"), ("b", frozenset({"t1"}))]
    for by_chrom in (True, False):
        judge_order_outputs(res, scratch, g, [c], "chr1", by_chrom, True, f"[bubble of {n_alleles} alleles] by_chrom={by_chrom}")
        res.count("wide_bubble_runs")


def run_shard(spec, tier, scratch):
    res = fw.ShardResult().begin(spec, tier)
    if spec["part"] == "wide":
        wide_bubble(res, scratch)
    elif spec["part"] == "roundtrip":
        roundtrip_part(res, spec, tier, scratch)
    elif spec["part"] == "tags":
        tags_part(res, scratch)
    else:
        order_part(res, spec, tier, scratch)
    return res


def replay(case, scratch):
    res = fw.ShardResult()
    if case["mode"] == "roundtrip":
        roundtrip(res, scratch, case["gfa"], "replay", gz_members=case.get("gz_members", 0))
        return res.failures
    g = rgfa.Graph.parse(case["gfa"])
    if len(g.segs) > 200:
        wide_bubble(res, scratch)  # (the brute-force chain model below is exponential in the bubble width)
        return [f for f in res.failures if f["case"].get("by_chrom") == case.get("by_chrom")] or res.failures
    chains = []
    for comp in rgfa.components(g.adjacency()):
        sub = rgfa.Graph()
        for n in g.segs:
            if n in comp:
                sub.segs[n] = g.segs[n]
        sub.links = [l for l in g.links if l.a in comp and l.b in comp]

        class C:
            pass

        c = C()
        names = [s.SN for s in sub.segs.values() if s.SR == 0]
        c.g, c.order, c.chrom = sub, gen.chain_order_by_model(sub) or [], max(set(names), key=names.count) if names else "?"
        chains.append(c)
    judge_order_outputs(res, scratch, g, chains, case["chromosome_order"], case["by_chrom"], case["with_sequence"], "replay", second_run=bool(case.get("second_run")), lfirst_nonl=bool(case.get("lfirst_nonl")))
    return res.failures
