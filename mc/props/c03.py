"""C03 - the view index lists exactly the records that traverse each node."""

import os

from mc import framework as fw
from mc import rgfa
from mc import gen
from mc import conv
from mc import viewidx as vi

ID = "C03"
LEVEL = "exploration"
TECHNIQUE = "bounded-exhaustive enumeration of (graph, GAF file, compression layout) through gaftools index; iff-oracle per (node, record) from an independent model"
RULE = (
    "layouts (<=R reference segments x 6 haplotype patterns) x link structure {complete, realistic: separated haplotype "
    "segments not adjacent} x GAF {unstable, model-canonical stable} x records = all walks of <=L steps with 3 offset choices, in "
    "file order and reversed x {plain; every placement of <=2 BGZF block boundaries around line boundaries and mid-line, with/without "
    "an empty block and the EOF block, for a 4-record file; >64 KiB files cut at 0xff00 and written by pysam}. evaluations = "
    "(node, record) pairs judged; non-trivial = pairs where the record traverses the node; distinct = distinct (configuration, node, record)."
)
ASSUMPTIONS = [
    "index entries are compared as sets of the records their offsets resolve to (the statement says 'contains')",
    "the 'ref_contig' entry of the pickle is not part of the property",
    "stable inputs are the model's canonical stable forms of walks (interval boundaries on node boundaries)",
]
LEVEL_TEXT = (
    "For every configuration inside the bounds the real `gaftools index` is run and every (node, record) pair is judged in both "
    "directions (no missing and no false entry), every listed offset is resolved by seeking the indexed file, and BGZF block "
    "boundaries are enumerated rather than left to the compressor - the cases (multi-block files, separated haplotype segments, "
    "absence of false entries) the four pickle-comparison tests cannot reach."
)
LEVEL_NOTE = "Trusts the overlap model in mc/viewidx.py:traverses and the harness's BGZF writer (self-checked against pysam's reader on every file)."
DESIGN_REF = "DESIGN.md §4 C03"
EXHAUSTIVE = True


def bounds(tier):
    if tier == "quick":
        return {"max_ref_segments": 3, "max_steps": 2, "bgzf_layout_shards": 16, "bgzf_max_cuts": 2}
    return {"max_ref_segments": 4, "max_steps": 3, "bgzf_layout_shards": 120, "bgzf_max_cuts": 3}


def plan(tier, seed):
    b = bounds(tier)
    specs = []
    for L in gen.layouts(b["max_ref_segments"]):
        for lm in ("complete", "realistic"):
            specs.append({"layout": conv.layout_desc(L), "linkmode": lm})
    # BGZF layouts on the layouts with the most structure first
    rich = sorted(range(len(specs)), key=lambda i: -(len(specs[i]["layout"]["ref_lens"]) * 10 + len(gen.hap_segments(specs[i]["layout"]["pattern"]))))
    for i in rich[: b["bgzf_layout_shards"]]:
        specs[i]["bgzf"] = True
    for i in rich[:2]:
        specs[i]["big"] = True
    specs.sort(key=lambda s: (not s.get("bgzf"), not s.get("big")))
    # one long reference (12 reference segments, 15 bases: ids and offsets cross the 9 -> 10 digit boundary), walks of <= 2 steps
    from mc.props import c01

    for lm in ("complete", "realistic"):
        specs.append({"layout": {"ref_lens": list(c01.LONG_REF), "pattern": "one", "scale": 1}, "linkmode": lm, "max_steps": 2})
    return specs


def case_of(L, lm, stable, recs, variant, gfa_order="so", pad=None):
    return {"layout": conv.layout_desc(L), "linkmode": lm, "stable": stable, "records": [r.line() for r in recs], "variant": list(variant),
            "gfa_order": gfa_order, "pad": pad}


def gfa_text(g, gfa_order):
    """line order of the graph file is part of the input: 'so' = S lines in SO order then L lines; 'rev' = L lines
    first, then the S lines in reverse order"""
    if gfa_order == "so":
        return g.text()
    if gfa_order == "noseq":
        # the graph without sequences ('*' in column 3, lengths in LN), as order_gfa writes it without --with-sequence
        out = []
        for l in g.text().split("\n"):
            f = l.split("\t")
            if f[0] == "S":
                f[2] = "*"
            out.append("\t".join(f))
        return "\n".join(out)
    return "".join(l.line() + "\n" for l in g.links) + "".join(x.line() + "\n" for x in reversed(list(g.segs.values())))


def check_index(res, g, L, lm, stable, recs, variant, scratch, tag="x", gfa_order="so", pad=None, keep_gaf=False, older_than_index=False):
    gfa_path = os.path.join(scratch, "g.gfa")
    fw.write_text(gfa_path, gfa_text(g, gfa_order))
    unpadded = recs
    if pad:
        recs = vi.pad_records(recs, pad)
    text = "".join(r.line() + "\n" for r in recs)
    gaf_path = os.path.join(scratch, f"{tag}.gaf" + ("" if variant[0].startswith("plain") else ".gz"))
    if not (keep_gaf and os.path.exists(gaf_path)):
        vi.write_gaf(gaf_path, text, variant)
        if older_than_index and os.path.exists(gaf_path + ".gvi"):
            # the file that replaces the indexed one carries an older time stamp than the existing index (mv, cp -p, rsync -t)
            t = os.path.getmtime(gaf_path + ".gvi") - 3600
            os.utime(gaf_path, (t, t))
    res.next_call()
    out, ind = vi.run_index(gaf_path, gfa_path)
    res.count("index_runs")
    case = case_of(L, lm, stable, unpadded, variant, gfa_order, pad)
    if out.kind != "ok" or ind is None:
        res.fail(f"C03/index:{out.sig()}", f"[{L.name}, {lm} links, {'stable' if stable else 'unstable'} GAF, {variant[0]}] gaftools index failed on valid input: {out.brief()}", case)
        return None
    byline = {r.line(): r for r in recs}
    keys = {}
    for k in ind:
        if k == "ref_contig":
            continue
        ok = isinstance(k, tuple) and len(k) == 4 and k[0] in g.segs
        if ok:
            s = g.segs[k[0]]
            ok = tuple(k) == (s.id, s.SN, s.SO, s.SO + s.LN)
        if not ok:
            res.fail("C03/bad-key", f"index key {k!r} is not (node id, contig, start, end) of a node of the graph", case)
            continue
        keys[k[0]] = k
    alloff = sorted({o for k in keys.values() for o in ind[k]})
    resolved = vi.resolve_offsets(gaf_path, alloff)
    # the same offsets through the library's own random access, on a reader that has already been iterated a little (as a
    # consumer does that first looks at the head of the file)
    api = vi.resolve_offsets_api(gaf_path, alloff)
    for o in alloff:
        a, b = resolved[o], api[o]
        if not isinstance(a, str) and b != a.qname.split(" ")[0]:
            res.fail("C03/read_line-differs", f"[{L.name}, {variant[0]}] offset {o} is the start of record {a.qname!r}, GAF.read_line({o}) on a reader that was iterated before gives {b!r}", case)
            break
    for node in g.segs:
        want = {r.qname for r in recs if vi.traverses(g, r, node)}
        got = set()
        if node in keys:
            for o in ind[keys[node]]:
                rr = resolved[o]
                if isinstance(rr, str) or rr.line() not in byline:
                    res.fail("C03/bad-offset", f"[{L.name}, {variant[0]}] offset {o} listed for node {node} does not resolve to a record of the file: {rr if isinstance(rr, str) else rr.line()!r}", case)
                    continue
                got.add(rr.qname)
        elif want:
            pass  # no entry at all for an aligned node: every record is missing (reported below)
        res.evaluations += len(recs)
        for q in want:
            res.nt(fw.h64([L.name, lm, stable, variant[0], node, q, len(recs)]))
        if got != want:
            miss, extra = sorted(want - got), sorted(got - want)
            one = [r for r in recs if r.qname in (miss + extra)[:1]]
            c2 = dict(case)
            c2["node"] = node
            res.fail(
                "C03/" + ("missing-record" if miss else "false-entry"),
                f"[{L.name}, {lm}, {'stable' if stable else 'unstable'}, {variant[0]}] node {node}: records missing from its entry {miss[:4]}, records listed that do not traverse it {extra[:4]}"
                + (f" e.g. {one[0].path} [{one[0].ps},{one[0].pe})" if one else ""),
                c2,
            )
    return ind, gaf_path, gfa_path


def record_sets(g, L, maxlen):
    urecs = [r for r, st in vi.walk_records(g, L, maxlen)]
    # every fifth read name carries its FASTQ description after a blank (GraphAligner / ONT style)
    urecs = [rgfa.Rec(r.qname + " runid=ab12 ch=7", *r.cols()[1:], opt=list(r.opt)) if i % 5 == 3 else r for i, r in enumerate(urecs)]
    srecs = [rgfa.to_stable_model(g, r) for r in urecs]
    return urecs, srecs


def small_file(recs):
    if len(recs) <= 4:
        return recs
    step = len(recs) / 4.0
    return [recs[int(i * step)] for i in range(4)]


def run_shard(spec, tier, scratch):
    res = fw.ShardResult().begin(spec, tier)
    b = bounds(tier)
    L = conv.layout_from(spec["layout"])
    lm = spec["linkmode"]
    g = vi.graph_for(L, lm)
    # an index run in this process on the same contig names tiled differently comes first
    other = gen.Layout(tuple(reversed(L.ref_lens)) + (2,), L.pattern if L.pattern != "one" else "touching2", L.scale)
    og = vi.graph_for(other, lm)
    ou, os_ = record_sets(og, other, 2)
    if os_:
        check_index(fw.ShardResult(), og, other, lm, True, os_[:60], ("plain",), scratch, "prime")
    urecs, srecs = record_sets(g, L, spec.get("max_steps") or b["max_steps"])
    res.count("walk_records", len(urecs))
    for stable, recs in ((False, urecs), (True, srecs)):
        if not recs:
            continue
        check_index(res, g, L, lm, stable, recs, ("plain",), scratch, "all")
        check_index(res, g, L, lm, stable, recs[::-1], ("plain",), scratch, "rev", gfa_order="rev")
        if len(recs) > 1:
            # the indexed file is replaced by another one (same path, other record order) with an older time stamp, and indexed again
            check_index(res, g, L, lm, stable, recs[1:] + recs[:1], ("plain",), scratch, "all", older_than_index=True)
            res.count("reindexed_after_replacement_by_an_older_file")
        check_index(res, g, L, lm, stable, recs, ("pysam",), scratch, "allgz", gfa_order="rev")
        check_index(res, g, L, lm, stable, recs, ("plain",), scratch, "noseq", gfa_order="noseq")
        if not stable and L.scale == 1:
            # the very same GAF file (not rewritten) re-indexed against another graph with the same segment names but
            # other intervals: the index left by the first run must not survive
            L37 = gen.Layout(L.ref_lens, L.pattern, 37)
            check_index(res, vi.graph_for(L37, lm), L37, lm, stable, recs, ("plain",), scratch, "all", keep_gaf=True)
            res.count("reindex_same_gaf_other_graph")
        check_index(res, g, L, lm, stable, recs, ("plain-nonl",), scratch, "nonl")
        check_index(res, g, L, lm, stable, recs[::-1], ("pysam-nonl",), scratch, "nonlgz")
        if spec.get("bgzf"):
            sm = small_file(recs)
            text = "".join(r.line() + "\n" for r in sm)
            for variant in vi.bgzf_variants(text, b["bgzf_max_cuts"]):
                check_index(res, g, L, lm, stable, sm, variant, scratch, "cut")
                res.count("bgzf_layouts")
        if spec.get("big"):
            check_index(res, g, L, lm, stable, recs[:40], ("bgzip64k",), scratch, "big", pad=150_000)
            check_index(res, g, L, lm, stable, recs[:40], ("pysam",), scratch, "bigp", pad=150_000)
            # beyond 8 MiB (a reader working in large chunks meets a chunk boundary inside a record)
            check_index(res, g, L, lm, stable, recs[:40], ("plain",), scratch, "huge", pad=9_500_000)
            check_index(res, g, L, lm, stable, recs[:40], ("bgzip64k",), scratch, "hugez", pad=9_500_000)
            res.count("files_over_64k", 4)
            res.count("files_over_8MiB", 2)
    if urecs:
        res.sample({"layout": L.name, "links": lm, "unstable": urecs[len(urecs) // 2].line(), "stable": srecs[len(urecs) // 2].line(), "nodes": {n: [s.SN, s.SO, s.SO + s.LN] for n, s in g.segs.items()}})
    return res


def replay(case, scratch):
    res = fw.ShardResult()
    L = conv.layout_from(case["layout"])
    g = vi.graph_for(L, case["linkmode"])
    recs = [rgfa.Rec.parse(l) for l in case["records"]]
    v = case["variant"]
    variant = tuple(v) if v[0] != "bgzf" else ("bgzf", v[1], v[2], v[3])
    check_index(res, g, L, case["linkmode"], case["stable"], recs, variant, scratch, "rp", gfa_order=case.get("gfa_order", "so"), pad=case.get("pad"))
    return res.failures
