"""Shared by C03 (index), C04 (view --node), C05 (view --region), C17: graphs with realistic link structure,
record sets, file variants (plain / BGZF layouts), the model of 'record traverses node', index resolution."""

import os
import pickle

from mc import framework as fw
from mc import rgfa
from mc import gen
from mc import bgzf


def realistic_links(L):
    """reference chain, touching haplotype segments linked to each other, every haplotype segment attached to the
    first and last reference node, one inversion link. Separated haplotype segments are NOT adjacent."""
    links = []
    refs = [s for s in L.segs if s[1] == "chr1"]
    haps = [s for s in L.segs if s[1] not in ("chr1", "chr2")]
    for a, b in zip(refs, refs[1:]):
        links.append((a[0], "+", b[0], "+", "0M"))
    for a, b in zip(haps, haps[1:]):
        if a[1] == b[1] and a[2] + a[3] == b[2]:
            links.append((a[0], "+", b[0], "+", "0M"))
    first, last = refs[0][0], refs[-1][0]
    for h in haps:
        links.append((first, "+", h[0], "+", "0M"))
        links.append((h[0], "+", last, "+", "0M"))
    if len(refs) >= 2:
        links.append((refs[0][0], "+", refs[1][0], "-", "0M"))
    return links


def graph_for(L, linkmode):
    if linkmode == "complete":
        return L.graph("complete")
    return L.graph(realistic_links(L), sn_last=True)


def walk_records(g, L, maxlen, exhaustive_offsets=False, cap_offsets=3):
    """records over the actual walks of g; a few offset choices per walk (full span, inner, first node only...)"""
    sides = g.side_set()
    n = 0
    for steps in gen.step_sequences(L.ids(), maxlen):
        if not g.is_walk(steps, sides):
            continue
        total = sum(g.segs[x].LN for o, x in steps)
        if exhaustive_offsets:
            offs = [(s, e) for s in range(total) for e in range(s + 1, total + 1)]
        else:
            first = g.segs[steps[0][1]].LN
            last = g.segs[steps[-1][1]].LN
            offs = [(0, total)]
            if total >= 2:
                offs.append((first - 1, total - last + 1))  # touches first and last node with one base each
            if len(steps) >= 2:
                offs.append((0, first))  # alignment inside the first node only
        seen = set()
        for s, e in offs[:cap_offsets] if not exhaustive_offsets else offs:
            if (s, e) in seen or not (0 <= s < e <= total):
                continue
            seen.add((s, e))
            yield gen.walk_record(n, steps, s, e, total), steps
            n += 1


def traverses(g, rec, node):
    """model: does the record's path traverse the node (C03's definition)"""
    s = g.segs[node]
    if not rec.is_stable():
        return any(n == node for o, n in rgfa.parse_steps(rec.path))
    ivs = rgfa.parse_stable_path(rec.path)
    if ivs is None:
        return rec.path == s.SN and rec.ps < s.SO + s.LN and s.SO < rec.pe
    return any(c == s.SN and a < s.SO + s.LN and s.SO < b for o, c, a, b in ivs)


def touched_nodes(g, rec):
    return [n for n in g.segs if traverses(g, rec, n)]


def write_gaf(path, text, variant):
    """variant: ('plain',) or ('bgzf', cuts, empty_after, eof) or ('pysam',)"""
    data = text.encode()
    if variant[0].endswith("-nonl"):
        # the same records, but the last line is not newline terminated
        data = data.rstrip(b"\n")
        variant = (variant[0][: -len("-nonl")],) + tuple(variant[1:])
    if variant[0] == "plain":
        with open(path, "wb") as f:
            f.write(data)
    elif variant[0] == "bgzf":
        bgzf.write(path, data, variant[1], variant[2], variant[3])
    elif variant[0] == "bgzip64k":
        bgzf.write(path, data, list(range(0xFF00, len(data), 0xFF00)), (), True)
    elif variant[0] == "pysam":
        from pysam import libcbgzf

        w = libcbgzf.BGZFile(path, "wb")
        w.write(data)
        w.close()
    else:
        raise ValueError(variant)
    return path


def bgzf_variants(text, max_cuts=2, cap=None):
    data = text.encode()
    cand = bgzf.line_cut_candidates(data)
    out = []
    for cuts in bgzf.cut_layouts(len(data), max_cuts, cand):
        out.append(("bgzf", list(cuts), [], True))
        if cuts:
            out.append(("bgzf", list(cuts), [0], True))
            if len(cuts) == 1:
                out.append(("bgzf", list(cuts), [], False))
    return out


def run_index(gaf_path, gfa_path, out_path=None):
    from gaftools.cli import index

    if out_path is None:
        out_path = gaf_path + ".gvi"
    # an index left at this path by an earlier call stays there: re-indexing a changed file is ordinary use
    out = fw.guarded(index.run, gaf_path=gaf_path, gfa_path=gfa_path, output=out_path)
    ind = None
    if out.kind == "ok" and os.path.exists(out_path):
        with open(out_path, "rb") as f:
            ind = pickle.load(f)
    return out, ind


def resolve_offsets(gaf_path, offsets):
    """offset -> raw parsed record (or an error string) by seeking the file the way gaftools' reader does"""
    from gaftools.gaf import GAF

    out = {}
    gaf = None
    for off in offsets:
        try:
            if gaf is None:
                gaf = GAF(gaf_path)
            gaf.file.seek(off)
            line = gaf.file.readline()
            if isinstance(line, bytes):
                line = line.decode()
            out[off] = rgfa.Rec.parse(line.rstrip("\n"))
        except Exception as e:
            out[off] = f"{type(e).__name__}: {e}"
            try:
                gaf.close()
            except Exception:
                pass
            gaf = None  # a failed seek can leave the handle unusable
    if gaf is not None:
        try:
            gaf.close()
        except Exception:
            pass
    return out


def resolve_offsets_api(gaf_path, offsets):
    """offset -> query name returned by GAF.read_line on ONE reader object whose read_file() was iterated for one record first"""
    from gaftools.gaf import GAF

    out = {}
    gaf = None
    try:
        gaf = GAF(gaf_path)
        for _ in gaf.read_file():
            break
    except Exception as e:
        return {o: f"{type(e).__name__}: {e}" for o in offsets}
    for off in offsets:
        try:
            a = gaf.read_line(off)
            out[off] = a.query_name if a is not None else "None"
        except Exception as e:
            out[off] = f"{type(e).__name__}: {e}"
    try:
        gaf.close()
    except Exception:
        pass
    return out


def pad_records(recs, target_bytes):
    """append a long zz:Z: tag to each record so that the file exceeds target_bytes"""
    if not recs:
        return recs
    per = target_bytes // len(recs) + 1
    out = []
    for i, r in enumerate(recs):
        q = rgfa.Rec(*r.cols(), opt=list(r.opt) + ["zz:Z:" + gen._seq(per, i)])
        out.append(q)
    return out
