"""Binding the environment model of mc/vmp.py to real multiprocessing.

RealExec replays a schedule explored on the virtual environment with *real forked processes and a real
multiprocessing.Queue*: every worker event of the schedule is performed by releasing a gate in the real child
and waiting (state-based, no sleeps) until the kernel shows its effect (bytes in the queue's pipe, child
exited); every parent operation is performed on the real object and its result is compared with what the
model predicted. Any difference is a ReplayDivergence (harness error), never a violation."""

import os
import sys
import time
import fcntl
import struct
import signal
import termios
import queue as _queue
import multiprocessing as real_mp
from multiprocessing.reduction import ForkingPickler

from mc import vmp

ACK_TIMEOUT = 60.0


def _fionread(fd):
    buf = fcntl.ioctl(fd, termios.FIONREAD, struct.pack("i", 0))
    return struct.unpack("i", buf)[0]


def _msg_size(obj):
    return 4 + len(bytes(ForkingPickler.dumps(obj)))


class _InjectedCrash(Exception):
    pass


class _GatedQueue:
    """child side: every put waits for the scheduler's permission"""

    def __init__(self, real_q, gate, die_after, die_code, die_lock=False):
        self.q, self.gate, self.die_after, self.die_code, self.die_lock = real_q, gate, die_after, die_code, die_lock
        self.n = 0

        self.crash_owner = None

    def _maybe_die(self):
        if self.die_after is not None and self.die_code < 0 and self.n == self.die_after:
            if self.die_lock:
                self.q._wlock.acquire(timeout=2)  # what the feeder thread holds while it writes a message into the pipe
            os.kill(os.getpid(), -self.die_code)
            time.sleep(60)

    def put(self, item, block=True, timeout=None):
        if self.die_after is not None and self.die_code >= 0 and self.n == self.die_after and not self.crash_owner.fired:
            # the injected crash of the worker's computation, raised at the put when no alignment is left to fail
            self.crash_owner.fired = True
            raise vmp.InjectedCrash(f"injected failure at queue put {self.n}")
        self.gate.acquire()
        self._maybe_die()
        self.q.put(item)
        self.n += 1

    put_nowait = put


def _gated_target(target, call, qpos, real_q, gate, die_after, die_code, die_lock=False):
    gq = _GatedQueue(real_q, gate, die_after, die_code, die_lock)
    call = list(call)
    call[qpos] = gq
    devnull = open(os.devnull, "w")
    sys.stdout = devnull
    sys.stderr = devnull
    try:
        os.dup2(devnull.fileno(), 2)
    except Exception:
        pass
    err = None
    try:
        if die_after is not None and die_code >= 0:
            import gaftools.cli.realign as R

            class _Q:  # crash_injection only needs somewhere to note the put index
                crash_at_put = None
                crash_owner = None

            with vmp.crash_injection(R, die_after, _Q()) as inj:
                gq.crash_owner = inj
                target(*call)
        else:
            target(*call)
    except BaseException as e:  # the worker body failed: exit non-zero, but only when scheduled
        err = e
    # all results handed to the queue; wait for permission to exit
    gate.acquire()
    gq._maybe_die()
    if err is not None:
        raise err


class RQueue(vmp.VQueue):
    def __init__(self, sched):
        super().__init__(sched)
        self.real = real_mp.Queue()
        self.pending_bytes = 0


class RealExec(vmp.Exec):
    def __init__(self, cfg, prefix=(), fault=None):
        super().__init__(cfg, prefix, fault, want_state=False)
        self.real_procs = {}
        self.gates = {}
        self.divergences = []

    # -- construction hooks used by VirtualMP
    def make_queue(self):
        return RQueue(self)

    # ------------------------------------------------------------------ events on real children
    def do_event(self, w):
        ev = super().do_event(w)
        kind = ev[0]
        gate = self.gates[w.wid]
        rp = self.real_procs[w.wid]
        gate.release()
        t0 = time.time()
        if kind == "deliver":
            q = w.q
            q.pending_bytes += _msg_size(w.msgs[w.delivered - 1])
            fd = q.real._reader.fileno()
            while _fionread(fd) != q.pending_bytes:
                if time.time() - t0 > ACK_TIMEOUT:
                    raise vmp.ReplayDivergence(
                        f"deliver(w{w.wid}) not visible in the pipe: {_fionread(fd)} bytes, expected {q.pending_bytes}"
                    )
                time.sleep(0.0005)
            # the bytes are in the pipe, but the child's feeder thread may still hold the queue's cross-process write lock
            # for a moment; killing the child at its next event while it does would wedge every other writer (an artefact
            # of this harness' timing, not a schedule of the model): wait until the lock is free again
            wl = getattr(q.real, "_wlock", None)
            if wl is not None:
                if not wl.acquire(timeout=ACK_TIMEOUT):
                    raise vmp.ReplayDivergence(f"deliver(w{w.wid}): the queue's write lock is still held {ACK_TIMEOUT} s after the bytes arrived")
                wl.release()
        else:
            while True:
                try:
                    r = os.waitid(os.P_PID, rp.pid, os.WEXITED | os.WNOHANG | os.WNOWAIT)
                except ChildProcessError:
                    break
                if r is not None:
                    break
                if time.time() - t0 > ACK_TIMEOUT:
                    raise vmp.ReplayDivergence(f"{kind}(w{w.wid}): the real child did not terminate")
                time.sleep(0.0005)
        return ev

    # ------------------------------------------------------------------ parent operations on real objects
    def op_start(self, p):
        super().op_start(p)
        qpos = [i for i, a in enumerate(p.args) if isinstance(a, vmp.VQueue)][0]
        q = p.args[qpos]
        gate = real_mp.Semaphore(0)
        f = self.faults.get(p.wid)
        call = [None if isinstance(a, vmp.VQueue) else a for a in p.args]
        rp = real_mp.Process(
            target=_gated_target,
            args=(p.target, call, qpos, q.real, gate, f["k"] if f else None, f["code"] if f else 0, bool(f and f.get("lock"))),
        )
        rp.start()
        self.gates[p.wid] = gate
        self.real_procs[p.wid] = rp

    def _check(self, label, model, real):
        if model != real:
            raise vmp.ReplayDivergence(f"{label}: model predicted {model!r}, real multiprocessing gave {real!r}")

    def op_get(self, q, block, timeout):
        try:
            item = super().op_get(q, block, timeout)
        except _queue.Empty:
            # the model says the queue is empty: the real get must really time out
            try:
                got = q.real.get(block, timeout)
            except _queue.Empty:
                raise _queue.Empty() from None
            raise vmp.ReplayDivergence(f"get: model predicted Empty, real queue returned {got!r}")
        try:
            got = q.real.get(block, timeout)
        except _queue.Empty:
            raise vmp.ReplayDivergence(f"get: model predicted item {item!r}, real queue timed out")
        q.pending_bytes -= _msg_size(got)
        self._check("get", item, got)
        return got

    def op_is_alive(self, p):
        r = super().op_is_alive(p)
        self._check(f"is_alive(w{p.wid})", r, self.real_procs[p.wid].is_alive())
        return r

    def op_exitcode(self, p):
        r = super().op_exitcode(p)
        self._check(f"exitcode(w{p.wid})", r, self.real_procs[p.wid].exitcode)
        return r

    def op_kill(self, p, code):
        super().op_kill(p, code)
        rp = self.real_procs[p.wid]
        if rp.is_alive():
            os.kill(rp.pid, -code)
        rp.join(ACK_TIMEOUT)
        if rp.is_alive():
            raise vmp.ReplayDivergence(f"kill(w{p.wid}): the real child survived signal {-code}")

    def op_join(self, p, timeout):
        super().op_join(p, timeout)
        rp = self.real_procs[p.wid]
        rp.join(timeout if timeout is not None else ACK_TIMEOUT)
        if timeout is None and rp.is_alive():
            raise vmp.ReplayDivergence(f"join(w{p.wid}): the real child is still alive")

    def run(self):
        try:
            return super().run()
        finally:
            for rp in self.real_procs.values():
                try:
                    if rp.is_alive():
                        rp.kill()
                    rp.join(5)
                except Exception:
                    pass
            for q in self.queues:
                try:
                    q.real.close()
                    q.real.join_thread()
                except Exception:
                    pass


def conform(cfg, choices, fault, virtual):
    """Replay one explored schedule on real processes; returns None if it conforms, else a description."""
    if virtual.get("uses_sync"):
        return "SKIPPED"  # semaphores / locks shared with the workers are explored on the model only
    try:
        r = RealExec(cfg, choices, fault).run()
    except vmp.ReplayDivergence as e:
        return f"divergence: {e}"
    if r.trace != virtual["trace"]:
        k = next((i for i, (a, b) in enumerate(zip(r.trace, virtual["trace"])) if a != b), None)
        return f"operation traces differ at step {k}: real {r.trace[k] if k is not None and k < len(r.trace) else None} vs model {virtual['trace'][k] if k is not None and k < len(virtual['trace']) else None}"
    if list(r.outcome) != list(virtual["outcome"]):
        return f"outcome differs: real {r.outcome} vs model {virtual['outcome']}"
    if r.output != virtual["output"]:
        return "output differs between real and model execution"
    return None
