"""check driver: plans shards, runs them in worker subprocesses, aggregates, applies the known-findings
file, writes replay artefacts and the evidence file.

usage: python -m mc.runner <ID> <quick|thorough> [--replay FILE]
exit 0: property held on everything explored (KNOWN-FINDING lines allowed)
exit 1: VIOLATION property=<id> replay=<path>
exit 2: harness error (never a violation)
"""

import os
import sys
import json
import time
import importlib
import subprocess
import tempfile
import shutil
import concurrent.futures as cf

from mc import framework as fw

VERIF = fw.VERIF
NPROC = int(os.environ.get("VERIF_JOBS", str(os.cpu_count() or 4)))


def load_module(pid):
    return importlib.import_module(f"mc.props.{pid.lower()}")


def load_known():
    p = os.path.join(VERIF, "known_findings.json")
    if not os.path.exists(p):
        return {"findings": []}
    with open(p) as f:
        return json.load(f)


def run_worker(pid, tier, spec, workdir, idx, mode="shard"):
    specfile = os.path.join(workdir, f"spec{idx}.json")
    outfile = os.path.join(workdir, f"out{idx}.json")
    with open(specfile, "w") as f:
        json.dump(spec, f)
    env = dict(os.environ)
    env["PYTHONHASHSEED"] = str(spec.get("hashseed", 0))
    env["PYTHONDONTWRITEBYTECODE"] = "1"
    env[fw.GUARD] = "1"
    for k, v in (spec.get("env") or {}).items():
        env[k] = str(v)
    t0 = time.time()
    timeout = float(os.environ.get("VERIF_SHARD_TIMEOUT", "7200"))
    try:
        p = subprocess.run(
            [sys.executable, "-m", "mc.worker", pid, tier, mode, specfile, outfile],
            cwd=VERIF,
            env=env,
            stdout=subprocess.PIPE,
            stderr=subprocess.PIPE,
            timeout=timeout,
        )
    except subprocess.TimeoutExpired:
        return {"harness_error": f"shard {idx} exceeded the wall-clock watchdog of {timeout}s", "spec": spec}
    if p.returncode < 0 and mode == "shard":
        # the worker was killed by a signal (e.g. SIGSEGV inside a C library driven by the code under test with
        # garbage it computed): that is a crash of the command, not a problem of the harness
        return {"crashed": -p.returncode, "spec": spec, "stderr": p.stderr.decode(errors="replace")[-400:]}
    if p.returncode != 0 or not os.path.exists(outfile):
        return {
            "harness_error": f"worker for shard {idx} exited {p.returncode}: "
            + p.stderr.decode(errors="replace")[-3000:],
            "spec": spec,
        }
    with open(outfile) as f:
        res = json.load(f)
    res["wall_s"] = time.time() - t0
    os.remove(outfile)
    os.remove(specfile)
    return res


def write_replay(pid, failure, tier, seed):
    d = os.environ.get("VERIF_REPLAY_DIR") or os.path.join(VERIF, "replays")
    os.makedirs(d, exist_ok=True)
    name = f"{pid}-{fw.h64([failure['sig'], failure['case']])}.json"
    path = os.path.join(d, name)
    with open(path, "w") as f:
        json.dump(
            {
                "property_id": pid,
                "signature": failure["sig"],
                "what": failure["what"],
                "tier": tier,
                "seed": seed,
                "case": failure["case"],
                "how_to_replay": f"cd /verif && ./check {pid} quick --replay {path}",
            },
            f,
            indent=1,
            sort_keys=True,
        )
    return path


def classify(pid, failures, known):
    """-> (known_hits {sig: (entry, count)}, violations [failure])"""
    entries = {e["signature"]: e for e in known.get("findings", []) if e.get("property") == pid}
    hits = {}
    viol = []
    for f in failures:
        e = entries.get(f["sig"])
        if e is not None and e.get("status") == "known":
            ent, n = hits.get(f["sig"], (e, 0))
            hits[f["sig"]] = (ent, n + 1)
        else:
            viol.append(f)
    return hits, viol


def main(argv):
    if len(argv) < 2:
        print(__doc__)
        return 2
    pid = argv[0].upper()
    tier = argv[1]
    replay_file = None
    if "--replay" in argv:
        replay_file = argv[argv.index("--replay") + 1]
        if tier not in ("quick", "thorough"):
            tier = "quick"
    if tier not in ("quick", "thorough"):
        print("tier must be quick or thorough")
        return 2
    seed = int(os.environ.get("VERIF_SEED", "0"))
    t0 = time.time()
    try:
        mod = load_module(pid)
    except ModuleNotFoundError as e:
        print(f"HARNESS-ERROR: no check module for {pid}: {e}")
        return 2

    workdir = tempfile.mkdtemp(prefix=f"gtv-run-{pid}-", dir=fw.scratch_root())
    try:
        if replay_file:
            with open(replay_file) as f:
                rep = json.load(f)
            if "crashed_shard" in rep["case"]:
                r2 = run_worker(pid, tier, rep["case"]["crashed_shard"], workdir, 0)
                if "crashed" in r2:
                    print(f"replay: the shard's process dies again with signal {r2['crashed']}")
                    print(f"VIOLATION property={pid} replay={replay_file}")
                    return 1
                print("replay: the shard completes on this tree")
                return 0
            spec = {"case": rep["case"], "hashseed": rep["case"].get("hashseed", 0), "sig": rep.get("signature")}
            res = run_worker(pid, tier, spec, workdir, 0, mode="replay")
            if "harness_error" in res:
                print("HARNESS-ERROR:", res["harness_error"])
                return 2
            fails = res["failures"]
            if fails:
                for f in fails:
                    print(f"replay: still fails: [{f['sig']}] {f['what']}")
                print(f"VIOLATION property={pid} replay={replay_file}")
                return 1
            print("replay: the case passes on this tree")
            return 0

        specs = mod.plan(tier, seed)
        if not specs:
            print("HARNESS-ERROR: empty plan")
            return 2
        # VERIF_SEED only rotates the order in which shards are scheduled
        order = list(range(len(specs)))
        rot = seed % len(order)
        order = order[rot:] + order[:rot]
        results = [None] * len(specs)
        with cf.ThreadPoolExecutor(max_workers=NPROC) as ex:
            futs = {ex.submit(run_worker, pid, tier, specs[i], workdir, i): i for i in order}
            for fu in cf.as_completed(futs):
                results[futs[fu]] = fu.result()
        if os.environ.get("VERIF_SHARD_TIMES"):
            for i, r in sorted(enumerate(results), key=lambda t: -t[1].get("wall_s", 0))[:8]:
                print(f"  shard {i}: {r.get('wall_s', 0):.1f}s {json.dumps(specs[i])[:150]}")
        crashed = [r for r in results if "crashed" in r]
        crash_failures = []
        flaky_crash = False
        for r in crashed:
            # deterministic? the same shard must crash again
            again = run_worker(pid, tier, r["spec"], workdir, 8000 + len(crash_failures))
            if "crashed" not in again:
                # not deterministic (e.g. a wild read through a wrong offset that sometimes hits unmapped memory): the other
                # shards are still judged; without a violation from them the run counts as broken
                print(f"HARNESS-ERROR: a worker died with signal {r['crashed']} but the same shard completes on a second run")
                flaky_crash = True
                continue
            crash_failures.append({"sig": f"{pid}/crash:signal-{r['crashed']}", "what": f"the process running the code under test died with signal {r['crashed']} (reproduced on a second run of the same shard); stderr: {r['stderr'].strip()[-200:]}",
                                   "case": {"crashed_shard": r["spec"], "signal": r["crashed"]}})
        results = [r if "crashed" not in r else {"evaluations": 0, "nontrivial": 0, "failures": [], "samples": [], "stats": {}, "sets": {}} for r in results]
        herr = [r for r in results if "harness_error" in r]
        if herr:
            for r in herr[:6]:
                print("HARNESS-ERROR:", r["harness_error"])
            if len(herr) > 6:
                print(f"HARNESS-ERROR: ... and {len(herr) - 6} more shard(s)")
            if all("harness_error" in r for r in results):
                return 2
            # the other shards' results are still judged: a violation found there is reported (exit 1); without one the
            # run counts as broken (exit 2)
            results = [r if "harness_error" not in r else {"evaluations": 0, "nontrivial": 0, "failures": [], "samples": [], "stats": {}, "sets": {}} for r in results]

        evaluations = sum(r["evaluations"] for r in results)
        nontrivial = sum(r["nontrivial"] for r in results)
        stats = {}
        sets = {}
        samples = []
        failures = []
        for r in results:
            for k, v in r.get("stats", {}).items():
                stats[k] = stats.get(k, 0) + v
            for k, v in r.get("sets", {}).items():
                sets.setdefault(k, set()).update(map(str, v))
            failures.extend(r["failures"])
        # samples: rotate by seed
        allsamples = [s for r in results for s in r.get("samples", [])]
        if allsamples:
            k = seed % len(allsamples)
            samples = (allsamples[k:] + allsamples[:k])[:4]

        extra = {}
        if hasattr(mod, "finalize"):
            fin = mod.finalize(results, tier) or {}
            failures.extend(fin.get("failures", []))
            extra = fin.get("coverage", {})
            if fin.get("harness_error"):
                # (e.g. nothing could be validated on real processes) - violations found by the shards are still reported;
                # without one the run counts as broken
                print("HARNESS-ERROR:", fin["harness_error"])
                herr = herr or [True]

        failures.extend(crash_failures)
        known = load_known()
        hits, viol = classify(pid, failures, known)
        for sig, (ent, n) in sorted(hits.items()):
            total = stats.get("failures:" + sig, n)
            print(f"KNOWN-FINDING: property={pid} {ent['what']} [{sig}; {total} case(s) in this run]")
        for e in known.get("findings", []):
            if e.get("property") == pid and e.get("status") == "known" and e["signature"] not in hits:
                print(f"note: listed finding {e['signature']} was not observed in this run")

        # one VIOLATION line per distinct signature
        by_sig = {}
        for f in viol:
            by_sig.setdefault(f["sig"], []).append(f)
        nviol = 0
        not_reproduced = 0
        for sig, fl in sorted(by_sig.items()):
            f = min(fl, key=lambda x: len(json.dumps(x["case"])))
            # determinism: the failing case must fail again, with the same signature, in a fresh process
            if "crashed_shard" in f["case"]:
                rr = {"failures": [f]}  # already re-run above
            else:
                spec = {"case": f["case"], "hashseed": f["case"].get("hashseed", 0), "sig": sig}
                rr = run_worker(pid, tier, spec, workdir, 9000 + nviol, mode="replay")
            if "harness_error" in rr:
                print("HARNESS-ERROR: replay of a failing case crashed the worker:", rr["harness_error"])
                return 2
            if not rr["failures"]:
                print(
                    f"HARNESS-ERROR: failure [{sig}] did not reproduce in a fresh process "
                    f"(the case passes there); not reported as a violation"
                )
                not_reproduced += 1
                continue
            if not any(x["sig"] == sig for x in rr["failures"]):
                # the case fails again, only differently classified (e.g. a wild seek that reads other garbage)
                print(f"  note: in a fresh process the case of [{sig}] fails as {sorted({x['sig'] for x in rr['failures']})}")
            path = write_replay(pid, f, tier, seed)
            total = stats.get("failures:" + sig, len(fl))
            print(f"  [{sig}] {f['what']}  ({total} failing case(s))")
            print(f"VIOLATION property={pid} replay={path}")
            nviol += 1

        coverage = {
            "evaluations": evaluations,
            "distinct_nontrivial": nontrivial,
            "rule": mod.RULE,
            "samples": samples if samples else ["(no sample recorded)"],
            "exhaustive": bool(getattr(mod, "EXHAUSTIVE", True)),
            "shards": len(specs),
            "counters": {k: v for k, v in sorted(stats.items())},
            "distinct": {k: len(v) for k, v in sorted(sets.items())},
            "bounds": mod.bounds(tier) if hasattr(mod, "bounds") else {},
            "known_findings_observed": sorted(hits),
            "repo": fw.REPO,
        }
        coverage.update(extra)
        ev = {
            "property_id": pid,
            "tier": tier,
            "seed": seed,
            "level": mod.LEVEL,
            "coverage": coverage,
            "assumptions": list(getattr(mod, "ASSUMPTIONS", [])),
            "wall_s": round(time.time() - t0, 2),
            "violations": nviol,
        }
        evdir = os.environ.get("VERIF_EVIDENCE_DIR") or os.path.join(VERIF, "evidence")
        os.makedirs(evdir, exist_ok=True)
        tmp = os.path.join(evdir, f".{pid}.json.tmp")
        with open(tmp, "w") as f:
            json.dump(ev, f, indent=1, sort_keys=True, default=str)
        os.replace(tmp, os.path.join(evdir, f"{pid}.json"))
        print(
            f"{pid} {tier}: evaluations={evaluations} distinct_nontrivial={nontrivial} shards={len(specs)} "
            f"violations={nviol} known={len(hits)} wall={ev['wall_s']}s"
        )
        for k in sorted(extra):
            if isinstance(extra[k], (int, float, str, bool)):
                print(f"  {k}={extra[k]}")
        if nviol:
            return 1
        return 2 if (not_reproduced or herr or flaky_crash) else 0
    finally:
        shutil.rmtree(workdir, ignore_errors=True)


if __name__ == "__main__":
    sys.exit(main(sys.argv[1:]))
