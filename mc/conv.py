"""Conversion checks shared by C01 (same locus) and C02 (lossless): run `view --format` over every walk record
of a layout in both directions and judge each output record against the reference model."""

import os
import sys
import subprocess

from mc import framework as fw
from mc import rgfa
from mc import gen


def layout_from(d):
    return gen.Layout(tuple(d["ref_lens"]), d["pattern"], d.get("scale", 1), second_ref=tuple(d["second_ref"]) if d.get("second_ref") else None, second_name=d.get("second_name", "chr2"))


def layout_desc(L):
    d = {"ref_lens": list(L.ref_lens), "pattern": L.pattern, "scale": L.scale}
    if L.second_ref:
        d["second_ref"], d["second_name"] = list(L.second_ref), L.second_name
    return d


def view_convert(scratch, gaf_text, gfa_path, fmt, tag="x"):
    """-> Outcome, list of output lines"""
    from gaftools.cli import view

    inp = os.path.join(scratch, f"{tag}.in.gaf")
    outp = os.path.join(scratch, f"{tag}.out.gaf")
    if len(gaf_text) % 3 == 1 and gaf_text.endswith("\n"):
        gaf_text = gaf_text[:-1]  # about a third of the input files end without a newline
    fw.write_text(inp, gaf_text)
    if os.path.exists(outp):
        os.remove(outp)
    out = fw.guarded(view.run, gaf_path=inp, gfa=gfa_path, output=outp, format=fmt)
    lines = []
    if os.path.exists(outp):
        lines = open(outp).read().split("\n")
        if lines and lines[-1] == "":
            lines = lines[:-1]
    return out, lines


def records_for(g, L, maxlen, ids=None):
    """all walk records of a layout: every step sequence, every (or boundary) offsets"""
    ids = ids or L.ids()
    if len(L.ref_lens) > 20:
        # a contig of many segments: walks over the segments at its ends, around the 9 -> 10 digit boundary, around the
        # 64th segment, and the haplotype segment (the whole contig is in the graph; only the walks are windowed)
        nref = len(L.ref_lens)
        keep = set(range(1, 4)) | set(range(9, 13)) | set(range(62, 67)) | set(range(nref - 2, nref + 1))
        ids = [x for k, x in enumerate(ids, 1) if k in keep or k > nref]
    n = 0
    exhaustive = L.scale == 1
    for steps in gen.step_sequences(ids, maxlen):
        for s, e, total in gen.offsets_for(g, steps, exhaustive):
            yield gen.walk_record(n, steps, s, e, total), steps
            n += 1


def cg_of(rec):
    return rec.opt_get("cg")


def judge_locus(g, rin, rout, direction):
    """C01 oracle for one converted record. -> list of (kind, text)"""
    bad = []
    li = rgfa.loci(g, rin)
    try:
        lo = rgfa.loci(g, rout)
    except Exception as e:  # unknown node / contig, malformed path
        return [("unparsable-output", f"cannot interpret output path {rout.path!r}: {type(e).__name__}: {e}")]
    if li != lo:
        bad.append(("locus", f"input designates {_fmt(li)}, output designates {_fmt(lo)}"))
    try:
        want_len = rgfa.path_total_length(g, rout)
        if rout.plen != want_len:
            bad.append(("path-length", f"path length column {rout.plen}, length of the output path is {want_len}"))
    except Exception as e:
        bad.append(("unparsable-output", f"{type(e).__name__}: {e}"))
    if direction == "u2s":
        if rout.is_stable() is False:
            bad.append(("format", "output of --format stable is not in stable coordinates"))
        elif rgfa.parse_stable_path(rout.path) is None:
            ctg = g.contigs().get(rout.path)
            if ctg is None or ctg[0] != 0:
                bad.append(("bare-non-reference-contig", f"the output path is the bare name {rout.path!r}, which is not a rank-0 (reference) contig; only a reference contig may stand for a whole path"))
    else:
        if rout.is_stable():
            bad.append(("format", "output of --format unstable is not in unstable coordinates"))
    ci, co = cg_of(rin), cg_of(rout)
    flipped = rin.strand != rout.strand
    if ci is not None:
        want = rgfa.reverse_cigar(ci) if flipped else ci
        if co != want:
            bad.append(("cigar", f"strand {'flipped' if flipped else 'kept'} ({rin.strand}->{rout.strand}) but cg {ci} -> {co}"))
    return bad


def _fmt(l):
    if isinstance(l, tuple):
        return str(l)
    if len(l) > 8:
        return str(l[:4])[:-1] + ", ..., " + str(l[-2:])[1:]
    return str(l)


def judge_untouched(rin, rout):
    """C02 oracle, per record: untouched columns and optional fields other than cg"""
    bad = []
    a, b = rin.cols(), rout.cols()
    for i in (0, 1, 2, 3, 9, 10, 11):
        if a[i] != b[i]:
            bad.append(("column", f"column {i + 1} changed {a[i]!r} -> {b[i]!r}"))
    if rin.opt_without("cg") != rout.opt_without("cg"):
        bad.append(("optional-fields", f"optional fields changed {rin.opt} -> {rout.opt}"))
    return bad


def cli_view(scratch, gaf_text, gfa_path, fmt):
    inp = os.path.join(scratch, "cli.in.gaf")
    fw.write_text(inp, gaf_text)
    env = dict(os.environ)
    env["PYTHONPATH"] = fw.REPO + os.pathsep + env.get("PYTHONPATH", "")
    p = subprocess.run(
        [sys.executable, "-m", "gaftools", "view", inp, "-g", gfa_path, "-f", fmt],
        stdout=subprocess.PIPE,
        stderr=subprocess.PIPE,
        env=env,
        cwd=scratch,
    )
    lines = p.stdout.decode().split("\n")
    if lines and lines[-1] == "":
        lines = lines[:-1]
    return p.returncode, lines


def shrink_context(recs, i, test):
    """A failure seen for recs[i] inside a file may depend on the records before it. Returns the smallest of
    [recs[i]] / earlier records with the same path + recs[i] / the whole prefix for which test(list) still fails on its
    last record; the whole prefix if none does (so that the stored case always replays)."""
    one = [recs[i]]
    if test(one):
        return one
    same = [r for r in recs[:i] if r.path == recs[i].path][-3:] + one
    if len(same) > 1 and test(same):
        return same
    for k in (2, 4, 8, 16, 64):
        if k < i + 1:
            cand = recs[i + 1 - k : i + 1]
            if test(cand):
                return cand
    return recs[: i + 1]


def gfa_text(g, L):
    """The rGFA text of a layout. Line order is part of the input space: unscaled layouts are written S-then-L in
    SO order, the x37 layouts with all L lines first and the S lines in reverse order."""
    if L.scale == 1:
        return g.text()
    return "".join(l.line() + "\n" for l in g.links) + "".join(x.line() + "\n" for x in reversed(list(g.segs.values())))


def prime_with_sibling(scratch, L, maxlen=2):
    """Before a layout is checked, both conversions are run once in this process on a sibling graph (same contigs and
    intervals, differently named segments): a result must not depend on what an earlier call has seen."""
    # (i) same contigs and intervals under other segment names, (ii) the same contig names tiled differently
    retiled = gen.Layout(tuple(reversed(L.ref_lens)) + (2,), L.pattern if L.pattern != "one" else "touching2", L.scale)
    for other in (L.sibling(), retiled):
        g = other.graph("complete")
        gpath = os.path.join(scratch, "sibling.gfa")
        fw.write_text(gpath, g.text())
        recs = [r for r, st in records_for(g, other, min(maxlen, 2))][:400]
        if not recs:
            continue
        view_convert(scratch, "".join(r.line() + "\n" for r in recs), gpath, "stable", "sib1")
        srecs = [rgfa.to_stable_model(g, r) for r in recs]
        view_convert(scratch, "".join(r.line() + "\n" for r in srecs), gpath, "unstable", "sib2")
