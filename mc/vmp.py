"""E1: virtual multiprocessing + stateless schedule/fault explorer for gaftools realign.

The *real* parent (`run_realign` -> `realign_gaf`) runs unmodified with `gaftools.cli.realign.mp` rebound to a
VirtualMP instance. Every operation the parent performs on a queue or process is a scheduling point at which
the explorer decides whether pending worker events (deliver a result / exit / die) happen first.
"""

import os
import sys
import io
import copy
import queue as _queue
import contextlib

from mc import framework as fw


class Hang(BaseException):
    def __init__(self, kind):
        self.kind = kind


class ModelIncomplete(BaseException):
    pass


class ReplayDivergence(BaseException):
    pass


HORIZON = 400


class InjectedCrash(RuntimeError):
    """the injected failure of a worker's computation (stands for MemoryError & co inside the aligner)"""


class crash_injection:
    """Context manager: while the worker body runs, its k-th alignment (0-based) raises InjectedCrash.
    Injected through the aligner name the worker module uses; for k beyond the alignments of the batch (or when
    the module has no such name) the crash is raised from the k-th queue put instead."""

    def __init__(self, module, k, recq):
        self.m, self.k, self.recq = module, k, recq
        self.real = None
        self.calls = 0
        self.fired = False

    def __enter__(self):
        outer = self
        self.real = getattr(self.m, "WavefrontAligner", None)
        if self.real is not None:

            class CrashingAligner:
                def __init__(self, *a, **kw):
                    self._real = outer.real(*a, **kw)

                def __call__(self, *a, **kw):
                    n = outer.calls
                    outer.calls += 1
                    if n == outer.k:
                        outer.fired = True
                        raise InjectedCrash(f"injected failure while aligning record {n} of the batch")
                    return self._real(*a, **kw)

                def __getattr__(self, name):
                    return getattr(self._real, name)

            self.m.WavefrontAligner = CrashingAligner
        self.recq.crash_at_put = self.k
        self.recq.crash_owner = self
        return self

    def __exit__(self, *exc):
        if self.real is not None:
            self.m.WavefrontAligner = self.real
        return False


class _RecQueue:
    """What the worker body sees as its queue while its behaviour is being recorded."""

    def __init__(self):
        self.items = []
        self.ops = None
        self.crash_at_put = None
        self.crash_owner = None

    def put(self, item, block=True, timeout=None):
        if self.crash_at_put is not None and len(self.items) == self.crash_at_put and not self.crash_owner.fired:
            self.crash_owner.fired = True
            raise InjectedCrash(f"injected failure at queue put {len(self.items)}")
        self.items.append(item)
        if self.ops is not None:
            self.ops.append(("put", len(self.items) - 1))

    def put_nowait(self, item):
        self.put(item)

    def __getattr__(self, name):
        raise ModelIncomplete(f"worker used queue.{name}")


class VQueue:
    def __init__(self, sched):
        self._s = sched
        self.qid = sched.new_queue(self)
        self.items = []
        self.wedged = False  # a writer died while holding the cross-process write lock

    # parent side
    def get(self, block=True, timeout=None):
        return self._s.op_get(self, block, timeout)

    def get_nowait(self):
        return self._s.op_get(self, False, None)

    def put(self, item, block=True, timeout=None):
        self._s.op_parent_put(self, item)

    def put_nowait(self, item):
        self._s.op_parent_put(self, item)

    def empty(self):
        self._s.point(f"empty(q{self.qid})")
        return len(self.items) == 0

    def qsize(self):
        self._s.point(f"qsize(q{self.qid})")
        return len(self.items)

    def close(self):
        pass

    def join_thread(self):
        pass

    def cancel_join_thread(self):
        pass

    def __getattr__(self, name):
        raise ModelIncomplete(f"environment model incomplete: Queue.{name}")


class VProcess:
    def __init__(self, sched, group=None, target=None, name=None, args=(), kwargs=None, daemon=None):
        self._s = sched
        self.target = target
        self.args = tuple(args)
        self.kwargs = dict(kwargs or {})
        self.wid = sched.new_worker(self)
        self.name = name or f"VProcess-{self.wid}"
        self.daemon = daemon
        self.pid = None
        # environment state
        self.started = False
        self.msgs = None
        self.ops = []  # ordered events of the worker body: ("put", i) / ("acq", sem) / ("rel", sem)
        self.pos = 0
        self.q = None
        self.delivered = 0
        self.done = False  # exited or died
        self.code = None
        self.natural_code = 0
        self.crash_fired = False
        self.joined = False

    def start(self):
        self._s.op_start(self)

    def is_alive(self):
        return self._s.op_is_alive(self)

    @property
    def exitcode(self):
        return self._s.op_exitcode(self)

    def join(self, timeout=None):
        return self._s.op_join(self, timeout)

    def terminate(self):
        self._s.op_kill(self, -15)

    def kill(self):
        self._s.op_kill(self, -9)

    def close(self):
        pass

    def __getattr__(self, name):
        raise ModelIncomplete(f"environment model incomplete: Process.{name}")


class VSem:
    """multiprocessing.Semaphore / BoundedSemaphore / Lock shared between the parent and the workers.
    Inside a worker body (which runs while its behaviour is recorded) acquire/release become events of that worker:
    an acquire is enabled only while the value is positive, and a worker killed between an acquire and its release
    never gives the slot back."""

    def __init__(self, sched, value=1):
        self._s = sched
        self.value = value
        self.sid = len(sched.sems)
        sched.sems.append(self)
        sched.uses_sync = True

    def acquire(self, block=True, timeout=None):
        rec = self._s.recording
        if rec is not None:
            rec.append(("acq", self))
            return True
        return self._s.op_parent_acquire(self, block, timeout)

    def release(self):
        rec = self._s.recording
        if rec is not None:
            rec.append(("rel", self))
            return
        self._s.point(f"release(sem{self.sid})")
        self.value += 1

    def __enter__(self):
        self.acquire()
        return self

    def __exit__(self, *a):
        self.release()
        return False

    def __getattr__(self, name):
        raise ModelIncomplete(f"environment model incomplete: Semaphore.{name}")


class VirtualMP:
    """Stands in for the `multiprocessing` module inside gaftools.cli.realign."""

    def Semaphore(self, value=1):
        return VSem(self._s, value)

    def BoundedSemaphore(self, value=1):
        return VSem(self._s, value)

    def Lock(self):
        return VSem(self._s, 1)

    def __init__(self, sched):
        self._s = sched

    def Queue(self, maxsize=0):
        return self._s.make_queue()

    def Process(self, *a, **kw):
        return VProcess(self._s, *a, **kw)

    def cpu_count(self):
        self._s.trace.append(("cpu_count", self._s.cfg["cpu_count"]))
        return self._s.cfg["cpu_count"]

    def parent_process(self):
        # inside a worker body (while its behaviour is recorded) there is a parent; in the parent there is none
        return object() if self._s.recording is not None else None

    def current_process(self):
        class _P:
            name = "MainProcess" if self._s.recording is None else "VProcess"
            pid = os.getpid()
            daemon = False

        return _P()

    def active_children(self):
        return [w for w in self._s.workers if w.started and not w.done]

    def __getattr__(self, name):
        raise ModelIncomplete(f"environment model incomplete: multiprocessing.{name}")


def _simple(v, depth=0):
    """canonical value of a local for state hashing; returns (value, opaque?)"""
    if v is None or isinstance(v, (bool, int, float, str)):
        return v, False
    if isinstance(v, VProcess):
        return ("P", v.wid), False
    if isinstance(v, VQueue):
        return ("Q", v.qid), False
    if isinstance(v, VSem):
        return ("S", v.sid, v.value), False
    if isinstance(v, _queue.PriorityQueue):
        try:
            return ("PQ", tuple(sorted((x.priority, x.seq) for x in v.queue))), False
        except Exception:
            return ("PQ", len(v.queue)), True
    if hasattr(v, "priority") and hasattr(v, "seq"):
        return ("PA", v.priority, v.seq), False
    if isinstance(v, (list, tuple)) and depth < 2:
        vals = [_simple(x, depth + 1) for x in v]
        if all(not o for _, o in vals) and len(v) <= 8:
            return (type(v).__name__, tuple(x for x, _ in vals)), False
        return (type(v).__name__, len(v)), False
    if isinstance(v, (dict, set, frozenset)):
        return (type(v).__name__, len(v)), False
    return ("obj", type(v).__name__), True


class VThreads:
    """Stand-in for the `threading` module inside the code under test, for one extra execution per configuration: a thread
    started by the parent does not run until some thread is joined; then all threads that are pending run to completion one
    after the other, the most recently started first. Nothing orders unjoined threads against each other, so this is one of
    their legal schedules (a slow early writer, a fast late one). An exception that ends a thread (SystemExit included) is
    swallowed, as the interpreter does."""

    def __init__(self, real):
        self._real = real
        self.pending = []
        self.used = 0

    def __getattr__(self, name):
        return getattr(self._real, name)

    def Thread(self, group=None, target=None, name=None, args=(), kwargs=None, daemon=None):
        owner = self

        class T:
            def __init__(s_):
                s_.target, s_.args, s_.kwargs, s_.done, s_.started = target, args, kwargs or {}, False, False
                s_.name, s_.daemon = name or "VThread", daemon

            def start(s_):
                s_.started = True
                owner.used += 1
                owner.pending.append(s_)

            def _run(s_):
                if not s_.done:
                    s_.done = True
                    try:
                        s_.target(*s_.args, **s_.kwargs)
                    except (ModelIncomplete, ReplayDivergence, Hang):
                        raise
                    except BaseException:
                        pass

            def join(s_, timeout=None):
                todo, owner.pending = owner.pending[::-1], []
                for t in todo:
                    t._run()
                s_._run()

            def is_alive(s_):
                return s_.started and not s_.done

        return T()

    def flush(self):
        todo, self.pending = self.pending[::-1], []
        for t in todo:
            t._run()


class Exec:
    """One execution of run_realign under a given choice prefix."""

    def __init__(self, cfg, prefix=(), fault=None, want_state=True, starve=None, lazy_threads=False):
        # starve = (i, K): from the i-th recorded choice point on, "the parent acts first" is taken whenever it is on offer,
        # up to K times (a worker that is slow for a long time); afterwards the default schedule. On code whose state does
        # not change over a timed-out read the stutter rule withdraws the offer at once, so this costs nothing there.
        self.starve = starve
        self.starved = 0
        self.lazy_threads = lazy_threads
        self.horizon = HORIZON + (4 * starve[1] if starve else 0)
        self.cfg = cfg
        self.prefix = list(prefix)
        self.fault = fault  # None or dict(w=, k=, code=)  / list of such
        self.faults = {}
        if fault:
            for f in fault if isinstance(fault, list) else [fault]:
                self.faults[f["w"]] = f
        self.choices = []  # chosen index at each recorded choice point
        self.points = []  # (label, n_options, default_is_worker)
        self.trace = []  # parent-visible operation results, for conformance replay
        self.workers = []
        self.queues = []
        self.sems = []
        self.uses_sync = False
        self.recording = None
        self.nops = 0
        self.nevents = 0
        self.timeouts = 0
        self.races = 0  # worker event between a timeout and a liveness/exit-code read
        self.last_empty = None
        self.since_empty_events = None
        self.want_state = want_state
        self.states = []  # state hash at every scheduling point
        self.point_states = []  # state hash at every *recorded* choice point
        self.transitions = 0
        self.opaque = False
        self.out = io.StringIO()
        self.created = self.started_n = self.joined_n = 0

    # ------------------------------------------------------------------ registry
    def make_queue(self):
        return VQueue(self)

    def new_queue(self, q):
        self.queues.append(q)
        return len(self.queues) - 1

    def new_worker(self, p):
        self.workers.append(p)
        self.created += 1
        return len(self.workers) - 1

    # ------------------------------------------------------------------ environment
    def enabled(self):
        cap = self.cfg.get("pipe_capacity")
        out = []
        for w in self.workers:
            if not (w.started and not w.done):
                continue
            f = self.faults.get(w.wid)
            dying = f is not None and f["code"] < 0 and w.pos == f["k"]
            if not dying and w.pos < len(w.ops):
                op = w.ops[w.pos]
                if op[0] == "put" and cap is not None and w.q is not None and len(w.q.items) >= cap:
                    continue  # the pipe is full: the worker's feeder blocks until the parent reads
                if op[0] == "put" and w.q is not None and w.q.wedged:
                    continue  # another writer died while holding the queue's cross-process write lock
                if op[0] == "acq" and op[1].value <= 0:
                    continue  # blocked in acquire()
            out.append(w)
        return out

    def do_event(self, w):
        """perform the next event of worker w."""
        self.nevents += 1
        f = self.faults.get(w.wid)
        if f is not None and f["code"] < 0 and w.pos == f["k"]:
            w.done, w.code = True, f["code"]
            if f.get("lock") and w.q is not None:
                # death in the middle of a delivery: nothing of the message arrives, and the write lock that all
                # writers of this queue share stays taken for ever
                w.q.wedged = True
            return ("die", w.wid)
        if w.pos < len(w.ops):
            op = w.ops[w.pos]
            w.pos += 1
            if op[0] == "put":
                w.q.items.append(w.msgs[op[1]])
                w.delivered += 1
                return ("deliver", w.wid)
            if op[0] == "acq":
                op[1].value -= 1
                return ("acquire", w.wid)
            op[1].value += 1
            return ("release", w.wid)
        w.done, w.code = True, w.natural_code
        return ("exit", w.wid)

    def op_parent_acquire(self, sem, block, timeout):
        label = f"acquire(sem{sem.sid})"
        if block and timeout is None:
            while sem.value <= 0:
                if not self.enabled():
                    raise Hang("deadlock")
                self._force_one(label)
            self.point(label)
            if sem.value <= 0:
                return self.op_parent_acquire(sem, block, timeout)
        else:
            self.point(label)
            if sem.value <= 0:
                return False
        sem.value -= 1
        return True

    def parent_state(self):
        if not self.want_state:
            return None
        fr = sys._getframe(2)
        frames = []
        while fr is not None:
            fn = fr.f_code.co_filename
            if fn.endswith(os.path.join("gaftools", "cli", "realign.py")):
                loc = []
                for k in sorted(fr.f_locals):
                    v, op = _simple(fr.f_locals[k])
                    if op and k not in ("fastafile", "graph_obj", "gaf_file", "step_timer", "line", "timers", "output"):
                        self.opaque = True
                    loc.append((k, v))
                frames.append((fr.f_code.co_name, fr.f_lineno, tuple(loc)))
            fr = fr.f_back
        env = tuple((w.wid, w.started, w.pos, w.delivered, w.done, w.code) for w in self.workers) + tuple(x.value for x in self.sems)
        qs = tuple((q.wedged,) + tuple(repr(getattr(x, "priority", None)) for x in q.items) for q in self.queues)
        stut = (self.last_empty, self.since_empty_events == 0)
        return fw.h64(repr((frames, env, qs, self.out.getvalue(), self.created, self.started_n, self.joined_n, stut)))

    def point(self, label, can_proceed=True, same_as_before=False):
        """scheduling point before a parent operation: let worker events happen until 'proceed' is chosen."""
        self.nops += 1
        if self.nops > self.horizon:
            raise Hang("horizon")
        while True:
            st = self.parent_state()
            if st is not None:
                self.states.append(st)
            en = self.enabled()
            opts = [("w", w) for w in en]
            if can_proceed and not (same_as_before and en):
                opts.append(("p", None))
            if not opts:
                raise Hang("deadlock" if not can_proceed else "stutter")
            if opts == [("p", None)] and same_as_before:
                raise Hang("polling-forever")
            if len(opts) == 1:
                kind, w = opts[0]
            else:
                i = len(self.choices)
                if i < len(self.prefix):
                    c = self.prefix[i]
                    if c >= len(opts):
                        raise ReplayDivergence(f"choice {c} out of range at point {i} ({label})")
                elif self.starve and i >= self.starve[0] and self.starved < self.starve[1] and opts[-1][0] == "p":
                    c = len(opts) - 1
                    self.starved += 1
                else:
                    c = 0
                self.choices.append(c)
                self.points.append((label, len(opts), opts[0][0] == "w"))
                self.point_states.append(st)
                kind, w = opts[c]
            self.transitions += 1
            if kind == "p":
                return
            ev = self.do_event(w)
            if self.since_empty_events is not None:
                self.since_empty_events += 1
            same_as_before = False

    # ------------------------------------------------------------------ parent operations
    def op_get(self, q, block, timeout):
        label = f"get(q{q.qid})"
        blocking_forever = block and timeout is None
        # stutter rule: a second timed-out get on a still-empty queue, in the same parent state and with no
        # worker event in between, changes nothing; force progress (or report that the parent polls forever)
        same = False
        if not blocking_forever and self.last_empty is not None and not q.items:
            st = self.parent_state_for_stutter()
            if self.last_empty == (q.qid, st) and self.since_empty_events == 0:
                same = True
        if blocking_forever and not q.items:
            # cannot proceed until something is delivered
            while not q.items:
                if not self.enabled():
                    raise Hang("deadlock")
                self._force_one(label)
            self.point(label)
        else:
            self.point(label, same_as_before=same)
        if q.items:
            item = q.items.pop(0)
            self.last_empty = None
            self.since_empty_events = None
            self.trace.append((label, "item", getattr(item, "priority", None)))
            return item
        if blocking_forever:
            raise Hang("deadlock")
        self.timeouts += 1
        self.last_empty = (q.qid, self.parent_state_for_stutter())
        self.since_empty_events = 0
        self.trace.append((label, "Empty"))
        raise _queue.Empty()

    def _force_one(self, label):
        en = self.enabled()
        opts = [("w", w) for w in en]
        if len(opts) == 1:
            c = 0
        else:
            i = len(self.choices)
            c = self.prefix[i] if i < len(self.prefix) else 0
            if c >= len(opts):
                raise ReplayDivergence(f"choice {c} out of range at forced point {i} ({label})")
            self.choices.append(c)
            self.points.append((label + "!", len(opts), True))
            self.point_states.append(self.parent_state())
        self.transitions += 1
        self.do_event(opts[c][1])

    def parent_state_for_stutter(self):
        # parent-only part of the state: realign.py frames' simple locals + output so far
        fr = sys._getframe(2)
        frames = []
        while fr is not None:
            if fr.f_code.co_filename.endswith(os.path.join("gaftools", "cli", "realign.py")):
                loc = tuple((k, _simple(fr.f_locals[k])[0]) for k in sorted(fr.f_locals))
                frames.append((fr.f_code.co_name, loc))
            fr = fr.f_back
        return fw.h64(repr((frames, self.out.getvalue())))

    def op_parent_put(self, q, item):
        q.items.append(item)

    def op_start(self, p):
        self.point(f"start(w{p.wid})")
        if p.started:
            raise AssertionError("cannot start a process twice")
        p.started = True
        self.started_n += 1
        p.pid = 10000 + p.wid
        # run the real worker body on a private copy of its arguments (fork isolation) and record what it sends
        shared = (VQueue, VSem)
        args = copy.deepcopy(tuple(a for a in p.args if not isinstance(a, shared)))
        qs = [a for a in p.args if isinstance(a, VQueue)]
        rq = _RecQueue()
        rq.ops = p.ops
        call = []
        it = iter(args)
        for a in p.args:
            call.append(rq if isinstance(a, VQueue) else (a if isinstance(a, VSem) else next(it)))
        p.q = qs[0] if qs else None
        f = self.faults.get(p.wid)
        self.recording = p.ops
        try:
            if f is not None and f["code"] >= 0:
                # a crash (Python exception) inside the worker body: the worker's own code decides what still happens
                import gaftools.cli.realign as R

                with crash_injection(R, f["k"], rq) as inj:
                    try:
                        p.target(*call, **p.kwargs)
                    finally:
                        p.crash_fired = inj.fired
            else:
                p.target(*call, **p.kwargs)
            p.natural_code = 0
        except ModelIncomplete:
            raise
        except SystemExit as e:
            p.natural_code = e.code if isinstance(e.code, int) else (0 if e.code is None else 1)
        except Exception:
            p.natural_code = 1
        self.recording = None
        p.msgs = rq.items
        self.trace.append((f"start(w{p.wid})", len(p.msgs)))

    def _note_race(self):
        if self.since_empty_events:
            self.races += 1

    def op_is_alive(self, p):
        self.point(f"is_alive(w{p.wid})")
        self._note_race()
        r = p.started and not p.done
        self.trace.append((f"is_alive(w{p.wid})", r))
        return r

    def op_exitcode(self, p):
        self.point(f"exitcode(w{p.wid})")
        self._note_race()
        r = p.code if p.done else None
        self.trace.append((f"exitcode(w{p.wid})", r))
        return r

    def op_join(self, p, timeout):
        label = f"join(w{p.wid})"
        if timeout is None:
            # blocks until that worker is gone: its remaining events are forced (other workers may interleave)
            while p.started and not p.done:
                self.nops += 1
                if self.nops > self.horizon:
                    raise Hang("horizon")
                en = self.enabled()
                if p not in en:
                    # the joined worker cannot finish (its results do not fit the pipe and nobody reads): only other
                    # workers' events could help, and they never drain this pipe
                    if not en:
                        raise Hang("deadlock-join-with-full-pipe")
                    others = [w for w in en if w is not p]
                    self.transitions += 1
                    self.do_event(others[0])
                    continue
                if len(en) == 1:
                    self.transitions += 1
                    self.do_event(en[0])
                else:
                    i = len(self.choices)
                    # default: the joined worker itself runs
                    order = [p] + [w for w in en if w is not p]
                    c = self.prefix[i] if i < len(self.prefix) else 0
                    if c >= len(order):
                        raise ReplayDivergence(f"choice {c} out of range at join point {i}")
                    self.choices.append(c)
                    self.points.append((label, len(order), True))
                    self.point_states.append(self.parent_state())
                    self.transitions += 1
                    self.do_event(order[c])
            if not p.started:
                raise AssertionError("can only join a started process")
        else:
            self.point(label)
        if p.done and not p.joined:
            p.joined = True
            self.joined_n += 1
        self.trace.append((label, p.done))

    def op_kill(self, p, code):
        self.point(f"kill(w{p.wid})")
        if p.started and not p.done:
            p.done, p.code = True, code

    # ------------------------------------------------------------------ running the parent
    def run(self):
        import gaftools.cli.realign as R

        vmp = VirtualMP(self)
        old_mp = R.mp
        R.mp = vmp
        self.vthreads = None
        old_threading = getattr(R, "threading", None)
        if self.lazy_threads and old_threading is not None:
            self.vthreads = VThreads(old_threading)
            R.threading = self.vthreads
        old_batch = os.environ.get("GAFTOOLS_VERIF_BATCH")
        os.environ["GAFTOOLS_VERIF_BATCH"] = str(self.cfg["batch"])
        os.environ[fw.GUARD] = "1"
        outcome = None
        try:
            with contextlib.redirect_stdout(self.out):
                try:
                    R.run_realign(
                        gaf=self.cfg["gaf"], graph=self.cfg["gfa"], fasta=self.cfg["fasta"], output=None, cores=self.cfg["cores"]
                    )
                    outcome = ("return",)
                except Hang as h:
                    outcome = ("hang", h.kind)
                except SystemExit as e:
                    outcome = ("exit", e.code)
                except (ModelIncomplete, ReplayDivergence):
                    raise
                except Exception as e:
                    outcome = ("exc", type(e).__name__, fw.innermost_gaftools_frame(e.__traceback__)[1:])
        finally:
            R.mp = old_mp
            if self.vthreads is not None:
                R.threading = old_threading
            if old_batch is None:
                os.environ.pop("GAFTOOLS_VERIF_BATCH", None)
            else:
                os.environ["GAFTOOLS_VERIF_BATCH"] = old_batch
        self.outcome = outcome
        self.output = self.out.getvalue()
        if len(self.choices) < len(self.prefix):
            raise ReplayDivergence(
                f"execution ended after {len(self.choices)} choice points but the prefix has {len(self.prefix)}"
            )
        return self

    def deviations_before(self, i):
        return sum(1 for c in self.choices[:i] if c != 0)


class Explorer:
    """Stateless depth-first exploration of all schedules with at most `bound` deviations from the default
    (eager-worker) schedule; bound=None explores the complete tree."""

    def __init__(self, cfg, fault=None, bound=None, on_exec=None, max_execs=None, prune=False, max_ops=None, should_stop=None):
        self.should_stop = should_stop  # e.g. "enough violating executions seen for this configuration"
        self.max_ops = max_ops  # total parent operations over all executions (long executions count for more)
        self.ops = 0
        self.prune = prune
        self.expanded = {}
        self.pruned_points = 0
        self.cfg = cfg
        self.fault = fault
        self.bound = bound
        self.on_exec = on_exec
        self.max_execs = max_execs
        self.execs = 0
        self.capped = False
        self.states = set()
        self.transitions = 0
        self.with_timeouts = 0
        self.with_races = 0
        self.outcomes = {}
        self.max_points = 0
        self.opaque = False

    def run_one(self, prefix):
        x = Exec(self.cfg, prefix, self.fault).run()
        self.execs += 1
        self.ops += x.nops
        self.states.update(x.states)
        self.transitions += x.transitions
        if x.timeouts:
            self.with_timeouts += 1
        if x.races:
            self.with_races += 1
        self.max_points = max(self.max_points, len(x.points))
        self.opaque = self.opaque or x.opaque
        return x

    def explore(self):
        stack = [[]]
        while stack:
            if (self.max_execs is not None and self.execs >= self.max_execs) or (self.max_ops is not None and self.ops >= self.max_ops) or (self.should_stop is not None and self.should_stop()):
                self.capped = True
                break
            prefix = stack.pop()
            x = self.run_one(prefix)
            if self.on_exec:
                self.on_exec(x)
            alts = []
            for i in range(len(prefix), len(x.points)):
                if self.bound is not None and x.deviations_before(i) + 1 > self.bound:
                    continue
                if self.prune and not x.opaque:
                    st = x.point_states[i]
                    rem = float("inf") if self.bound is None else self.bound - x.deviations_before(i)
                    if st is not None and self.expanded.get(st, -1) >= rem:
                        # everything reachable from this state within the remaining budget was already scheduled
                        self.pruned_points += 1
                        break
                    self.expanded[st] = rem
                for alt in range(1, x.points[i][1]):
                    alts.append(x.choices[:i] + [alt])
            # depth-first, earliest deviation first
            stack.extend(reversed(alts))
        return self
