"""Common machinery: binding to the repository under test, guarded calls into gaftools,
deterministic non-termination decisions, failure records."""

import os
import sys
import json
import hashlib
import signal
import logging
import tempfile
import shutil
import traceback
import io
import contextlib

VERIF = os.path.dirname(os.path.dirname(os.path.abspath(__file__)))
REPO = os.path.realpath(os.environ.get("VERIF_REPO", "/repo"))
GUARD = "GAFTOOLS_VERIF"


class HarnessError(Exception):
    """Something is wrong with the checking machinery itself (never reported as a violation)."""


def bind_repo():
    """Import gaftools from the tree under test (VERIF_REPO, default /repo) and make sure that is what we got."""
    if REPO not in sys.path[:1]:
        sys.path.insert(0, REPO)
    os.environ[GUARD] = "1"
    import gaftools  # noqa

    got = os.path.realpath(gaftools.__file__)
    if not got.startswith(REPO + os.sep):
        raise HarnessError(f"gaftools imported from {got}, expected under {REPO}")
    return gaftools


def scratch_root():
    base = "/dev/shm" if os.access("/dev/shm", os.W_OK) else tempfile.gettempdir()
    return base


@contextlib.contextmanager
def scratch_dir(prefix="gtv-"):
    d = tempfile.mkdtemp(prefix=prefix, dir=scratch_root())
    try:
        yield d
    finally:
        shutil.rmtree(d, ignore_errors=True)


def h64(obj):
    if not isinstance(obj, (bytes, str)):
        obj = json.dumps(obj, sort_keys=True, default=str)
    if isinstance(obj, str):
        obj = obj.encode()
    return hashlib.blake2b(obj, digest_size=8).hexdigest()


# ----------------------------------------------------------------------------------------------
# log capture


class _ListHandler(logging.Handler):
    def __init__(self):
        super().__init__(level=logging.DEBUG)
        self.records = []

    def emit(self, record):
        try:
            msg = record.getMessage()
        except Exception as e:  # a broken log call is an internal error of the code under test
            msg = f"<<log formatting failed: {type(e).__name__}: {e}>>"
            self.records.append((record.levelno, msg, True))
            return
        self.records.append((record.levelno, msg, False))


_handler = None


def install_log_capture():
    """Route all logging into a list (no stderr noise, and checks can look at warnings)."""
    global _handler
    root = logging.getLogger()
    for h in list(root.handlers):
        root.removeHandler(h)
    _handler = _ListHandler()
    root.addHandler(_handler)
    root.setLevel(logging.WARNING)
    logging.raiseExceptions = False
    return _handler


def take_logs():
    if _handler is None:
        return []
    out = _handler.records
    _handler.records = []
    return out


# ----------------------------------------------------------------------------------------------
# guarded calls


class _KeepOpen(io.StringIO):
    """stdout capture that survives the code under test closing its writer (sort closes sys.stdout)"""

    def close(self):
        pass


class _Alarm(BaseException):
    pass


class _Budget(BaseException):
    pass


def _alarm_handler(signum, frame):
    raise _Alarm()


def innermost_gaftools_frame(tb):
    """(file basename, function name, line) of the innermost frame inside gaftools, else innermost frame."""
    best = None
    last = None
    for fs in traceback.extract_tb(tb):
        last = fs
        fn = os.path.realpath(fs.filename)
        if fn.startswith(REPO + os.sep):
            best = fs
    fs = best or last
    if fs is None:
        return ("?", "?", 0)
    return (os.path.relpath(os.path.realpath(fs.filename), REPO), fs.name, fs.lineno)


class Outcome:
    """Result of running one entry point of the code under test."""

    __slots__ = ("kind", "value", "exc_type", "frame", "msg", "logs", "stdout")

    def __init__(self, kind, value=None, exc_type=None, frame=None, msg=None, logs=None, stdout=None):
        self.kind = kind  # ok | cle (CommandLineError) | exit | exc | nonterm
        self.value = value
        self.exc_type = exc_type
        self.frame = frame
        self.msg = msg
        self.logs = logs or []
        self.stdout = stdout

    def brief(self):
        if self.kind == "ok":
            return "ok"
        if self.kind == "exit":
            return f"SystemExit({self.value})"
        if self.kind == "cle":
            return f"CommandLineError({self.msg})"
        if self.kind == "nonterm":
            return "does not terminate (line-event budget exhausted)"
        return f"{self.exc_type} at {self.frame[0]}:{self.frame[1]}: {self.msg}"

    def sig(self):
        if self.kind == "exc":
            return f"{self.exc_type}@{self.frame[0]}:{self.frame[1]}"
        return self.kind


LINE_BUDGET = 20_000_000


def _run_traced(fn, args, kwargs, budget):
    count = [0]
    repo_prefix = REPO + os.sep

    def tracer(frame, event, arg):
        if not frame.f_code.co_filename.startswith(repo_prefix):
            return None

        def local(frame, event, arg):
            if event == "line":
                count[0] += 1
                if count[0] > budget:
                    raise _Budget()
            return local

        return local

    sys.settrace(tracer)
    try:
        return fn(*args, **kwargs)
    finally:
        sys.settrace(None)


def guarded(fn, *args, _trigger_s=20.0, _budget=LINE_BUDGET, _capture_stdout=False, **kwargs):
    """Run fn(*args, **kwargs) from the code under test and classify how it ended.

    Non-termination is decided deterministically: a wall-clock alarm is only the trigger; the call is
    then repeated under a line-event budget counted inside the repository's files."""
    from gaftools.cli import CommandLineError

    take_logs()
    buf = _KeepOpen() if _capture_stdout else None

    def attempt(traced):
        ctx = contextlib.redirect_stdout(buf) if buf is not None else contextlib.nullcontext()
        with ctx:
            if traced:
                return _run_traced(fn, args, kwargs, _budget)
            return fn(*args, **kwargs)

    traced = False
    while True:
        old = signal.signal(signal.SIGALRM, _alarm_handler)
        if not traced:
            signal.setitimer(signal.ITIMER_REAL, _trigger_s)
        try:
            try:
                val = attempt(traced)
                out = Outcome("ok", value=val)
            finally:
                signal.setitimer(signal.ITIMER_REAL, 0)
                signal.signal(signal.SIGALRM, old)
        except _Alarm:
            if buf is not None:
                buf.seek(0)
                buf.truncate()
            traced = True
            continue
        except _Budget:
            out = Outcome("nonterm")
        except CommandLineError as e:
            out = Outcome("cle", msg=str(e))
        except SystemExit as e:
            out = Outcome("exit", value=e.code)
        except BaseException as e:  # noqa
            if isinstance(e, KeyboardInterrupt):
                raise
            out = Outcome(
                "exc",
                exc_type=type(e).__name__,
                frame=innermost_gaftools_frame(e.__traceback__),
                msg=str(e)[:300],
            )
        break
    out.logs = take_logs()
    if buf is not None:
        out.stdout = buf.getvalue()
    return out


# ----------------------------------------------------------------------------------------------
# failures and shard results


def failure(sig, what, case):
    return {"sig": sig, "what": what, "case": case}


REPLAY_STOP = None  # set by the worker when a failing call is re-created by re-running its shard's call sequence
CURRENT = None


class StopShard(BaseException):
    pass


class ShardResult:
    def __init__(self):
        self.callseq = None
        self.ncall = 0
        self.evaluations = 0
        self.nontrivial = set()
        self.failures = []
        self.samples = []
        self.stats = {}
        self.sets = {}

    def begin(self, spec, tier):
        """Declare that this shard is a deterministic sequence of calls into the code under test. Every failure then
        records its position in that sequence, so that a failure which depends on earlier calls in the same process
        (caches, leaked state) can be re-created by re-running the sequence up to that call."""
        global CURRENT
        self.callseq = {"spec": spec, "tier": tier}
        CURRENT = self
        return self

    def next_call(self):
        self.ncall += 1
        if REPLAY_STOP is not None and self.ncall > REPLAY_STOP:
            raise StopShard()

    def count(self, key, n=1):
        self.stats[key] = self.stats.get(key, 0) + n

    def seen(self, name, key):
        self.sets.setdefault(name, set()).add(key)

    def nt(self, key):
        self.nontrivial.add(key if isinstance(key, (int, str)) else h64(key))

    def would_keep(self, sig, keep_per_sig=3):
        return sum(1 for f in self.failures if f["sig"] == sig) < keep_per_sig

    def fail(self, sig, what, case, keep_per_sig=3):
        if self.callseq is not None:
            case = dict(case, call_sequence=dict(self.callseq, index=self.ncall))
        if REPLAY_STOP is not None:
            if self.callseq is None or self.ncall == REPLAY_STOP:
                self.failures.append(failure(sig, what, case))
            return
        n = sum(1 for f in self.failures if f["sig"] == sig)
        self.count("failures:" + sig)
        if n < keep_per_sig:
            self.failures.append(failure(sig, what, case))

    def sample(self, s, limit=3):
        if len(self.samples) < limit:
            self.samples.append(s)

    def to_json(self):
        return {
            "evaluations": self.evaluations,
            "nontrivial": len(self.nontrivial),
            "failures": self.failures,
            "samples": self.samples,
            "stats": self.stats,
            "sets": {k: sorted(v, key=str) for k, v in self.sets.items()},
        }


def write_text(path, text):
    with open(path, "w") as f:
        f.write(text)
    return path
