"""Shared by C06 / C07 / C18: running the real order_gfa with the environment choices owned by the harness
(which DFS root biccs starts from, in which order it reports the components), reading its outputs with the
independent reader, the chain expectations."""

import os
import csv
import glob
import shutil

from mc import framework as fw
from mc import rgfa
from mc import gen

_ENV = {"root": None, "flip": False}
_installed = False


def install_biccs_wrapper():
    """GFA.biccs called without set_of_nodes iterates over a set of node ids: the start node of its DFS and the
    order of the reported components are then decided by string hashing. The wrapper makes both a harness choice."""
    global _installed
    if _installed:
        return
    from gaftools.gfa import GFA

    orig = GFA.biccs

    def biccs(self, set_of_nodes=None):
        if set_of_nodes is None and _ENV["root"] is not None:
            names = sorted(self.nodes)
            root = names[_ENV["root"] % len(names)]
            comps, arts = orig(self, [root] + [n for n in names if n != root])
            if _ENV["flip"]:
                comps = list(comps)[::-1]
            return comps, arts
        return orig(self, set_of_nodes)

    GFA.biccs = biccs
    _installed = True


class OrderRun:
    def __init__(self, outcome, outdir, name):
        self.outcome = outcome
        self.outdir = outdir
        self.name = name
        self.files = sorted(os.path.basename(p) for p in glob.glob(os.path.join(outdir, "*"))) if os.path.isdir(outdir) else []

    def gfa(self, suffix):
        p = os.path.join(self.outdir, f"{self.name}-{suffix}.gfa")
        return open(p).read() if os.path.exists(p) else None

    def csv_rows(self, suffix, csvname=None):
        p = os.path.join(self.outdir, f"{csvname or self.name}-{suffix}.csv")
        if not os.path.exists(p):
            return None
        with open(p) as f:
            return list(csv.reader(f))


def run_order(scratch, text, chromosome_order, by_chrom=False, with_sequence=False, root=None, flip=False, name="g", suffix=".gfa", tag="o", keep_outdir=False):
    from gaftools.cli import order_gfa

    install_biccs_wrapper()
    inp = os.path.join(scratch, name + suffix)
    if suffix.endswith(".gz"):
        import gzip

        with gzip.open(inp, "wt") as f:
            f.write(text)
    else:
        fw.write_text(inp, text)
    outdir = os.path.join(scratch, f"out-{tag}")
    if not keep_outdir:
        shutil.rmtree(outdir, ignore_errors=True)  # the directory does not exist: creating it is the command's job
    else:
        os.makedirs(outdir, exist_ok=True)
    _ENV["root"], _ENV["flip"] = root, flip
    try:
        out = fw.guarded(order_gfa.run_order_gfa, gfa_filename=inp, outdir=outdir, by_chrom=by_chrom, chromosome_order=chromosome_order, with_sequence=with_sequence)
    finally:
        _ENV["root"], _ENV["flip"] = None, False
    return OrderRun(out, outdir, name)


def bo_no_map(gfa_text):
    g = rgfa.Graph.parse(gfa_text)
    out = {}
    for s in g.segs.values():
        bo, no = s.tag("BO"), s.tag("NO")
        out[s.id] = (int(bo) if bo is not None else None, int(no) if no is not None else None)
    return out


def judge_chain_tags(tags, chain_order):
    """C06 oracle for one chromosome: relations between the (BO, NO) of the chain elements in reference order."""
    bad = []
    prev = None
    for kind, x in chain_order:
        if kind == "s":
            bo, no = tags.get(x, (None, None))
            if bo is None:
                bad.append(("untagged", f"scaffold node {x} has no BO/NO"))
                continue
            if no != 0:
                bad.append(("scaffold-NO", f"scaffold node {x} has NO={no}, expected 0"))
            cur = bo
        else:
            ids = sorted(x)
            bos = {tags.get(n, (None, None))[0] for n in ids}
            if None in bos:
                bad.append(("untagged", f"bubble {ids} has an untagged node"))
                continue
            if len(bos) != 1:
                bad.append(("bubble-BO", f"inner nodes {ids} of one bubble carry different BO {sorted(bos)}"))
                continue
            nos = [tags[n][1] for n in ids]
            if nos != list(range(1, len(ids) + 1)):
                bad.append(("bubble-NO", f"inner nodes {ids} (lexicographic order) carry NO {nos}, expected {list(range(1, len(ids) + 1))}"))
            cur = bos.pop()
        if prev is not None and not (cur > prev):
            bad.append(("BO-not-increasing", f"BO does not increase along the chain in reference order: {prev} then {cur} at {x if kind == 's' else sorted(x)}"))
        prev = cur
    return bad


def stale_tagged(g):
    """a copy whose S lines already carry BO/NO tags from 'an earlier run' (deliberately different values)"""
    out = rgfa.Graph()
    for i, s in enumerate(g.segs.values()):
        out.add_seg(s.id, s.seq, list(s.tags) + [("BO", "i", str(900 - i)), ("NO", "i", str(i % 3))])
    out.links = list(g.links)
    return out
