"""worker: runs one shard (or one replay case) of a check in its own process.

usage: python -m mc.worker <ID> <tier> <shard|replay> <specfile> <outfile>
"""

import sys
import json
import importlib
import traceback

from mc import framework as fw


def main(argv):
    pid, tier, mode, specfile, outfile = argv
    with open(specfile) as f:
        spec = json.load(f)
    fw.bind_repo()
    fw.install_log_capture()
    mod = importlib.import_module(f"mc.props.{pid.lower()}")
    with fw.scratch_dir(prefix=f"gtv-{pid}-") as scratch:
        if mode == "replay":
            fails = mod.replay(spec["case"], scratch)
            out = {"failures": fails}
        else:
            res = mod.run_shard(spec, tier, scratch)
            out = res.to_json() if isinstance(res, fw.ShardResult) else res
    with open(outfile, "w") as f:
        json.dump(out, f, default=str)
    return 0


if __name__ == "__main__":
    try:
        sys.exit(main(sys.argv[1:]))
    except fw.HarnessError as e:
        sys.stderr.write(f"HarnessError: {e}\n")
        sys.exit(3)
    except Exception:
        traceback.print_exc()
        sys.exit(4)
