"""worker: runs one shard (or one replay case) of a check in its own process.

usage: python -m mc.worker <ID> <tier> <shard|replay> <specfile> <outfile>
"""

import sys
import json
import importlib
import traceback

from mc import framework as fw


def main(argv):
    pid, tier, mode, specfile, outfile = argv
    with open(specfile) as f:
        spec = json.load(f)
    fw.bind_repo()
    fw.install_log_capture()
    mod = importlib.import_module(f"mc.props.{pid.lower()}")
    with fw.scratch_dir(prefix=f"gtv-{pid}-") as scratch:
        if mode == "replay":
            case = spec["case"]
            cs = case.get("call_sequence")
            want = spec.get("sig")
            fails = []
            if cs:
                # most faithful first, while this process is still fresh: re-run the shard's deterministic call
                # sequence up to and including the failing call (a failure may depend on earlier calls: caches, leaked state)
                fw.REPLAY_STOP = cs["index"]
                fw.CURRENT = None
                try:
                    mod.run_shard(cs["spec"], cs["tier"], scratch)
                except fw.StopShard:
                    pass
                finally:
                    fw.REPLAY_STOP = None
                cur = fw.CURRENT
                fails = [f for f in (cur.failures if cur is not None else []) if f["case"].get("call_sequence", {}).get("index") == cs["index"]]
            if not fails or (want and not any(f["sig"] == want for f in fails)):
                alone = mod.replay(case, scratch)
                if alone:
                    fails = alone + fails
                elif fails:
                    for f in fails:
                        f["what"] += f" [only after the {cs['index'] - 1} earlier calls of its shard in the same process]"
            out = {"failures": fails}
        else:
            res = mod.run_shard(spec, tier, scratch)
            out = res.to_json() if isinstance(res, fw.ShardResult) else res
    with open(outfile, "w") as f:
        json.dump(out, f, default=str)
    return 0


if __name__ == "__main__":
    try:
        sys.exit(main(sys.argv[1:]))
    except fw.HarnessError as e:
        sys.stderr.write(f"HarnessError: {e}\n")
        sys.exit(3)
    except Exception:
        traceback.print_exc()
        sys.exit(4)
