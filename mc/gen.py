"""Shared input alphabets (DESIGN.md §3.3): segment layouts, walk records, bubble chains, line orders.
Everything is a deterministic enumeration; nothing is sampled."""

import itertools

from mc import rgfa

# ----------------------------------------------------------------------------------------------
# sequences


def _seq(n, salt):
    """deterministic, non-periodic looking sequence of length n"""
    x = (salt * 2654435761 + 12345) & 0xFFFFFFFF
    out = []
    for _ in range(n):
        x = (x * 1103515245 + 12345) & 0x7FFFFFFF
        out.append("ACGT"[(x >> 16) & 3])
    return "".join(out)


# ----------------------------------------------------------------------------------------------
# segment layouts

HAP_PATTERNS = ["none", "one", "touching2", "separated2", "separated2+second", "touching+separated3"]
HAP_A = "hA#1#ctg"
HAP_B = "hB-2#ctg"  # a contig name with a dash (the interval syntax uses one too)


def tilings(max_segments):
    for r in range(1, max_segments + 1):
        for lens in itertools.product((1, 2), repeat=r):
            yield lens


def hap_segments(pattern):
    """(contig, SO, LN, SR) of haplotype segments; offsets deliberately do not start at 0"""
    if pattern == "none":
        return []
    if pattern == "one":
        return [(HAP_A, 3, 2, 1)]
    if pattern == "touching2":
        return [(HAP_A, 3, 1, 1), (HAP_A, 4, 2, 1)]
    if pattern == "separated2":
        return [(HAP_A, 3, 2, 1), (HAP_A, 7, 1, 1)]
    if pattern == "separated2+second":
        return [(HAP_A, 3, 2, 1), (HAP_A, 7, 1, 1), (HAP_B, 0, 2, 2)]
    if pattern == "touching+separated3":
        return [(HAP_A, 3, 1, 1), (HAP_A, 4, 2, 1), (HAP_A, 8, 1, 1)]
    raise ValueError(pattern)


class Layout:
    def __init__(self, ref_lens, pattern, scale=1, second_ref=None, name=None, reversed_ids=False, second_name="chr2"):
        self.reversed_ids = reversed_ids
        self.second_name = second_name
        self.ref_lens = tuple(ref_lens)
        self.pattern = pattern
        self.scale = scale
        self.second_ref = second_ref
        self.name = name or f"ref{'.'.join(map(str, ref_lens))}|{pattern}|x{scale}" + (f"|{second_name}:{'.'.join(map(str, second_ref))}" if second_ref else "")
        self.segs = []  # (id, SN, SO, LN, SR)
        so = 0
        i = 0
        for ln in self.ref_lens:
            i += 1
            self.segs.append((f"s{i}", "chr1", so * scale, ln * scale, 0))
            so += ln
        for ctg, so, ln, sr in hap_segments(pattern):
            i += 1
            # haplotype segments carry names with non-word characters (valid GFA names; ':' is avoided because gaftools
            # tells stable from unstable paths by it)
            self.segs.append((f"s{i}" + (".1", "-alt", "#b")[i % 3], ctg, so * scale, ln * scale, sr))
        if second_ref:
            so = 0
            for ln in second_ref:
                i += 1
                self.segs.append((f"s{i}", second_name, so * scale, ln * scale, 0))
                so += ln

    def ids(self):
        return [s[0] for s in self.segs]

    def sibling(self):
        """the same contigs and intervals carried by differently named segments (another build of the same pangenome)"""
        sib = Layout(self.ref_lens, self.pattern, self.scale, self.second_ref, reversed_ids=True)
        n = len(sib.segs)
        names = [x[0] for x in sib.segs][::-1]
        sib.segs = [(names[k], sn, so, ln, sr) for k, (sid, sn, so, ln, sr) in enumerate(sib.segs)]
        return sib

    def graph(self, links="complete", sn_last=False):
        g = rgfa.Graph()
        for k, (sid, sn, so, ln, sr) in enumerate(self.segs):
            tags = [("LN", "i", str(ln)), ("SN", "Z", sn), ("SO", "i", str(so)), ("SR", "i", str(sr))]
            if sn_last:  # tag order is free in GFA; a Z tag at the very end of the line sits next to the newline
                tags = [tags[2], tags[0], tags[3], tags[1]]
            g.add_seg(sid, _seq(ln, k + 17 * len(self.segs)), tags)
        if links == "complete":
            sides = [(n, s) for n in self.ids() for s in (0, 1)]
            for (a, sa), (b, sb) in itertools.combinations_with_replacement(sides, 2):
                g.add_link(a, "+" if sa == 1 else "-", b, "+" if sb == 0 else "-", "0M")
        elif links == "none":
            pass
        else:
            for l in links:
                g.add_link(*l)
        return g


def layouts(max_ref_segments, scales=(1,), patterns=HAP_PATTERNS):
    for lens in tilings(max_ref_segments):
        for pat in patterns:
            for sc in scales:
                yield Layout(lens, pat, sc)


# ----------------------------------------------------------------------------------------------
# walks and records


def step_sequences(ids, maxlen, minlen=1):
    steps = [(o, n) for n in ids for o in "><"]
    for k in range(minlen, maxlen + 1):
        for p in itertools.product(steps, repeat=k):
            yield list(p)


def boundary_offsets(graph, steps):
    """start/end candidates for scaled layouts: 0, 1, each node boundary -1/+0/+1, total-1, total"""
    total = 0
    cand = {0, 1}
    for o, n in steps:
        total += graph.segs[n].LN
        cand.update({total - 1, total, total + 1})
    cand.update({total - 1, total})
    return sorted(c for c in cand if 0 <= c <= total), total


def offsets_for(graph, steps, exhaustive=True):
    total = sum(graph.segs[n].LN for o, n in steps)
    if exhaustive:
        for s in range(total):
            for e in range(s + 1, total + 1):
                yield s, e, total
    else:
        cand, total = boundary_offsets(graph, steps)
        for s in cand:
            for e in cand:
                if s < e:
                    yield s, e, total


def cigar_for(n, ordinal=0):
    if n == 1:
        return "1X", 0
    if n >= 3 and ordinal % 4 == 1:
        return f"1X1M{n - 2}=", n - 1  # M (match or mismatch) is a legal CIGAR operation as well
    if n >= 2 and ordinal % 8 == 7:
        # the unaligned base at either end of the read written as a soft clip (SAM operations beyond = X I D M are legal in cg:Z)
        return f"1S1X{n - 1}=1S", n - 1
    return f"1X{n - 1}=", n - 1


def walk_record(ordinal, steps, s, e, total, tags=True, cg=True):
    n = e - s
    cig, matches = cigar_for(n, ordinal)
    opt = []
    if tags:
        opt += ["tp:A:P", "NM:i:0"]
    if cg and ordinal % 11 != 5:  # one record in eleven has no CIGAR field at all (minigraph without -c)
        # the CIGAR field sits last, in the middle or first, by record ordinal
        opt.insert((len(opt), 1, 0)[ordinal % 3] if tags else 0, "cg:Z:" + cig)
    if tags and ordinal % 7 == 2:
        opt.insert(ordinal % (len(opt) + 1), "bc:Z:")  # an optional field with an empty value
    if tags and ordinal % 7 == 4:
        opt.insert(ordinal % (len(opt) + 1), "rg:Z:sample A lane 2")  # a Z value with blanks
    # read names as sequencers write them: some start with '@' or '#', some carry '/1'
    name = (f"r{ordinal}", f"@r{ordinal}/1", f"#r{ordinal}")[(0, 0, 0, 1, 0, 0, 2)[ordinal % 7]]
    return rgfa.Rec(name, n + 2, 1, 1 + n, "+", rgfa.steps_str(steps), total, s, e, matches, n, 60, opt)


def canonical_walk(graph, steps, s, e):
    """alignment touches its first and last node"""
    first = graph.segs[steps[0][1]].LN
    total = sum(graph.segs[n].LN for o, n in steps)
    last = graph.segs[steps[-1][1]].LN
    return s < first and e > total - last


# ----------------------------------------------------------------------------------------------
# line orders


def line_orders(n, n_s=None):
    """the stated finite family of line orders: all permutations when n <= 6, else identity, reversal,
    every rotation, and (when the number of S lines is known) S/L interleaving and L-before-S."""
    if n <= 6:
        for p in itertools.permutations(range(n)):
            yield list(p)
        return
    ident = list(range(n))
    seen = set()

    def emit(p):
        t = tuple(p)
        if t not in seen:
            seen.add(t)
            return True
        return False

    fam = [ident, ident[::-1]] + [ident[k:] + ident[:k] for k in range(1, n)]
    if n_s is not None:
        S, L = ident[:n_s], ident[n_s:]
        fam.append(L + S)
        inter = []
        for i in range(max(len(S), len(L))):
            if i < len(L):
                inter.append(L[i])
            if i < len(S):
                inter.append(S[i])
        fam.append(inter)
    for p in fam:
        if emit(p):
            yield p


# ----------------------------------------------------------------------------------------------
# bubble chains (order_gfa / sort)

BLOCKS = ["link", "snp", "insertion", "deletion", "triallelic", "twoseg", "nested", "inversion"]


class Chain:
    """end block, scaffold, (block, scaffold)^k, end block - built as an rGFA with reference contig `chrom`.

    Node ids are chosen so that lexicographic and numeric order differ (s10 < s9 lexicographically)."""

    def __init__(self, blocks, chrom="chr1", id_base=0, hap="hA#1#c", decl="fwd", so_base=0, ends=("tip", "tip"), scaffold_len=2, id_style="s", long_hap=False, self_links=False):
        self.blocks = list(blocks)
        self.chrom = chrom
        self.decl = decl
        self.ends = tuple(ends)
        self.g = rgfa.Graph()
        self.order = []  # expected chain elements in reference order: ("s", id) or ("b", frozenset(ids))
        self._n = id_base
        self._so = so_base
        self._hso = 100
        self._nl = 0
        self.hap = hap
        self.id_style = id_style
        self.long_hap = long_hap
        self.scaffold_len = scaffold_len
        # left end: the end node of a chain is never an articulation point; it is an inner node of the end block
        tip = self._ref(2)
        first = None
        if ends[0] == "tip":
            first = self._ref(self.scaffold_len)
            self._link(tip, "+", first, "+")
            self.order += [("b", frozenset([tip])), ("s", first)]
        else:  # "open": the end node starts a bubble (as s1 in tests/data/smallgraph.gfa)
            first = self._ref(self.scaffold_len)
            x = self._hapseg(2)
            self._link(tip, "+", first, "+")
            self._link(tip, "+", x, "+")
            self._link(x, "+", first, "+")
            self.order += [("b", frozenset([tip, x])), ("s", first)]
        prev = first
        for b in self.blocks:
            prev = self._block(b, prev)
        if self_links:
            # self links do not change the block structure: a tandem repeat on the first node, a hairpin on a scaffold
            self._link(tip, "+", tip, "+")
            self._link(first, "+", first, "-")
        if ends[1] == "tip":
            t = self._ref(2)
            self._link(prev, "+", t, "+")
            self.order.append(("b", frozenset([t])))
        else:
            x = self._hapseg(1)
            t = self._ref(2)
            self._link(prev, "+", t, "+")
            self._link(prev, "+", x, "+")
            self._link(x, "+", t, "+")
            self.order.append(("b", frozenset([t, x])))

    def _id(self):
        self._n += 1
        # s9, s10, s11 ...: lexicographic order differs from numeric order
        if self.id_style == "numeric":
            # vg-style ids 0, 1 (they collide with small integers used as internal names), then 8, 9, 10, 11, ...
            # (lexicographic and numeric order differ across the 9 -> 10 step)
            return str(self._n - 1) if self._n <= 2 else str(self._n + 5)
        if self.id_style == "odd":
            return f"s{self._n + 7}" + (".1", "-alt", "#b", "")[self._n % 4]
        return f"s{self._n + 7}"

    def _ref(self, ln):
        i = self._id()
        # a trailing tag that sorts first, so that a writer reordering the tags is noticed
        self.g.add_seg(i, _seq(ln, self._n), [("LN", "i", str(ln)), ("SN", "Z", self.chrom), ("SO", "i", str(self._so)), ("SR", "i", "0"), ("AA", "Z", f"n:{self._n}")])
        self._so += ln
        return i

    def _hapseg(self, ln, rank=1):
        if self.long_hap:
            ln = ln * 60  # a haplotype allele carrying far more bases than the whole reference of the chain
        i = self._id()
        # one contig name per rank: a contig has exactly one rank in a valid rGFA
        name = self.hap if rank == 1 else f"{self.hap}.r{rank}"
        q = _seq(ln, self._n + 50)
        q = q[:1] + q[1:].lower()  # haplotype alleles are partly soft-masked
        self.g.add_seg(i, q, [("LN", "i", str(ln)), ("SN", "Z", name), ("SO", "i", str(self._hso)), ("SR", "i", str(rank))])
        self._hso += ln + 3
        return i

    def _link(self, a, ao, b, bo):
        l = rgfa.Link(a, ao, b, bo, "0M", [f"SR:i:{0}", f"L1:i:{self.g.segs[a].LN}", f"L2:i:{self.g.segs[b].LN}"])
        self._nl += 1
        if self.decl == "rev" or (self.decl == "alt" and self._nl % 2 == 0):
            l = l.flipped()
        self.g.links.append(l)

    def _block(self, kind, left):
        if kind == "link":
            right = self._ref(self.scaffold_len)
            self._link(left, "+", right, "+")
            self.order.append(("s", right))
            return right
        if kind == "snp":
            a = self._ref(1)
            right = self._ref(self.scaffold_len)
            b = self._hapseg(1)
            for x in (a, b):
                self._link(left, "+", x, "+")
                self._link(x, "+", right, "+")
            self.order += [("b", frozenset([a, b])), ("s", right)]
            return right
        if kind == "insertion":
            # reference goes left->right directly, haplotype inserts a node: the bubble has one inner node
            right = self._ref(self.scaffold_len)
            b = self._hapseg(2)
            self._link(left, "+", right, "+")
            self._link(left, "+", b, "+")
            self._link(b, "+", right, "+")
            self.order += [("b", frozenset([b])), ("s", right)]
            return right
        if kind == "deletion":
            a = self._ref(2)
            right = self._ref(self.scaffold_len)
            self._link(left, "+", a, "+")
            self._link(a, "+", right, "+")
            self._link(left, "+", right, "+")
            self.order += [("b", frozenset([a])), ("s", right)]
            return right
        if kind == "triallelic":
            a = self._ref(1)
            right = self._ref(self.scaffold_len)
            b = self._hapseg(1)
            c = self._hapseg(2, 2)
            for x in (a, b, c):
                self._link(left, "+", x, "+")
                self._link(x, "+", right, "+")
            self.order += [("b", frozenset([a, b, c])), ("s", right)]
            return right
        if kind == "twoseg":
            a1 = self._ref(1)
            a2 = self._ref(1)
            right = self._ref(self.scaffold_len)
            b = self._hapseg(2)
            self._link(left, "+", a1, "+")
            self._link(a1, "+", a2, "+")
            self._link(a2, "+", right, "+")
            self._link(left, "+", b, "+")
            self._link(b, "+", right, "+")
            self.order += [("b", frozenset([a1, a2, b])), ("s", right)]
            return right
        if kind == "nested":
            a1 = self._ref(1)
            a2 = self._ref(1)
            a3 = self._ref(1)
            right = self._ref(self.scaffold_len)
            b = self._hapseg(1)
            c = self._hapseg(3, 2)
            self._link(left, "+", a1, "+")
            self._link(a1, "+", a2, "+")
            self._link(a1, "+", b, "+")
            self._link(a2, "+", a3, "+")
            self._link(b, "+", a3, "+")
            self._link(a3, "+", right, "+")
            self._link(left, "+", c, "+")
            self._link(c, "+", right, "+")
            self.order += [("b", frozenset([a1, a2, a3, b, c])), ("s", right)]
            return right
        if kind == "inversion":
            # the middle reference node can also be traversed reversed; as an undirected graph this is a path
            # left - a - right with parallel links, so a is itself a scaffold node (articulation point)
            a = self._ref(2)
            right = self._ref(self.scaffold_len)
            self._link(left, "+", a, "+")
            self._link(a, "+", right, "+")
            self._link(left, "+", a, "-")
            self._link(a, "-", right, "+")
            self.order += [("s", a), ("s", right)]
            return right
        raise ValueError(kind)


def chains(max_blocks, min_blocks=1):
    for k in range(min_blocks, max_blocks + 1):
        for bl in itertools.product(BLOCKS, repeat=k):
            yield list(bl)


def merge_graphs(graphs):
    g = rgfa.Graph()
    for x in graphs:
        for s in x.segs.values():
            g.segs[s.id] = s
        g.links.extend(x.links)
    return g


def chain_order_by_model(g):
    """Brute-force expectation for a one-chromosome chain graph: list of ("s", id) / ("b", frozenset) along the
    block-cut tree ordered by the reference offsets, or None when the block-cut tree is not a path."""
    adj = g.adjacency()
    arts = rgfa.articulation_points(adj)
    bl = rgfa.blocks(adj)
    # scaffold graph: articulation points + blocks that have inner nodes; blocks without inner nodes are edges
    nodes = {("s", a) for a in arts}
    edges = set()
    for b in bl:
        inner = frozenset(b - arts)
        ends = b & arts
        if not inner:
            if len(ends) != 2:
                return None
            u, v = sorted(ends)
            edges.add((("s", u), ("s", v)))
        else:
            nodes.add(("b", inner))
            for e in ends:
                edges.add((("b", inner), ("s", e)))
    nb = {n: set() for n in nodes}
    for u, v in edges:
        nb[u].add(v)
        nb[v].add(u)
    deg1 = [n for n in nodes if len(nb[n]) == 1]
    if len(deg1) != 2 or any(len(nb[n]) not in (1, 2) for n in nodes):
        return None
    order = [deg1[0]]
    seen = {deg1[0]}
    while True:
        nxt = [x for x in nb[order[-1]] if x not in seen]
        if not nxt:
            break
        order.append(nxt[0])
        seen.add(nxt[0])
    if len(order) != len(nodes):
        return None
    # direction: increasing reference offset. With >= 2 scaffold nodes their SO decides; with one, the smallest SO
    # of the rank-0 nodes of the first and last chain element does.
    sos = [g.segs[n[1]].SO for n in order if n[0] == "s"]
    if len(sos) >= 2:
        if sos[0] > sos[-1]:
            order.reverse()
    else:
        def ref_so(el):
            ids = [el[1]] if el[0] == "s" else sorted(el[1])
            v = [g.segs[i].SO for i in ids if g.segs[i].SR == 0]
            return min(v) if v else None

        a, b = ref_so(order[0]), ref_so(order[-1])
        if a is not None and b is not None and a > b:
            order.reverse()
    return order
