"""Own BGZF writer, so that block boundaries are a choice of the harness (the format: concatenated gzip members,
each with a 'BC' extra subfield giving the compressed block size, terminated by an empty EOF block)."""

import zlib
import struct
import itertools


def block(data: bytes) -> bytes:
    c = zlib.compressobj(6, zlib.DEFLATED, -15)
    comp = c.compress(data) + c.flush()
    bsize = 12 + 6 + len(comp) + 8  # header(12) + extra(6) + data + crc/isize
    hdr = b"\x1f\x8b\x08\x04" + b"\x00\x00\x00\x00" + b"\x00\xff" + struct.pack("<H", 6)
    extra = b"BC" + struct.pack("<H", 2) + struct.pack("<H", bsize - 1)
    tail = struct.pack("<I", zlib.crc32(data) & 0xFFFFFFFF) + struct.pack("<I", len(data))
    out = hdr + extra + comp + tail
    assert len(out) == bsize and bsize <= 65536
    return out


EOF_BLOCK = block(b"")


def write(path, data: bytes, cuts=(), empty_after=(), eof=True):
    """Write data as BGZF with block boundaries at the given uncompressed positions.
    empty_after: indices of blocks after which an empty block is inserted."""
    pos = [0] + sorted(set(c for c in cuts if 0 < c < len(data))) + [len(data)]
    out = []
    for i in range(len(pos) - 1):
        out.append(block(data[pos[i] : pos[i + 1]]))
        if i in empty_after:
            out.append(block(b""))
    if eof:
        out.append(EOF_BLOCK)
    with open(path, "wb") as f:
        f.write(b"".join(out))
    return len(pos) - 1


def cut_layouts(n, max_cuts=2, candidates=None):
    """every placement of up to max_cuts cuts among candidate positions (default: every byte position)."""
    cand = list(range(1, n)) if candidates is None else [c for c in candidates if 0 < c < n]
    yield ()
    for k in range(1, max_cuts + 1):
        for cs in itertools.combinations(cand, k):
            yield cs


def line_cut_candidates(data: bytes):
    """cut positions that matter for line-oriented readers: around every line boundary and mid-line."""
    out = set()
    start = 0
    for i, b in enumerate(data):
        if b == 0x0A:
            out.update({i, i + 1, i - 1, (start + i) // 2})
            start = i + 1
    return sorted(x for x in out if 0 < x < len(data))
