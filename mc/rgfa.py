"""Reference model of rGFA / GAF, written from the specifications (GFA1, rGFA, GAF) and docs/guide.rst.
Shares no code with gaftools. Deliberately boring: dicts, lists, brute force."""

import re
import itertools

COMP = {"A": "T", "C": "G", "G": "C", "T": "A", "N": "N", "a": "t", "c": "g", "g": "c", "t": "a", "n": "n"}


def revcomp(s):
    return "".join(COMP[c] for c in reversed(s))


# ----------------------------------------------------------------------------------------------
# GFA


def split_tag(field):
    """TAG:TYPE:VALUE -> (tag, type, value); value is everything after the second colon."""
    a = field.find(":")
    b = field.find(":", a + 1)
    if a < 0 or b < 0:
        raise ValueError(f"not an optional field: {field!r}")
    return (field[:a], field[a + 1 : b], field[b + 1 :])


class Seg:
    __slots__ = ("id", "seq", "tags")

    def __init__(self, id, seq, tags):
        self.id = id
        self.seq = seq
        self.tags = list(tags)  # ordered list of (tag, type, value)

    def tag(self, name, default=None):
        for t, ty, v in self.tags:
            if t == name:
                return v
        return default

    @property
    def SN(self):
        return self.tag("SN")

    @property
    def SO(self):
        return int(self.tag("SO"))

    @property
    def LN(self):
        v = self.tag("LN")
        return int(v) if v is not None else len(self.seq)

    @property
    def SR(self):
        return int(self.tag("SR"))

    def line(self, with_seq=True):
        return "\t".join(["S", self.id, self.seq if with_seq else "*"] + [f"{t}:{ty}:{v}" for t, ty, v in self.tags])


def side_pair(a, ao, b, bo):
    """The unordered pair of node sides a link joins. side 1 = end of the segment, 0 = start.
    `L a + b +` leaves a at its end and enters b at its start."""
    sa = 1 if ao == "+" else 0
    sb = 0 if bo == "+" else 1
    return tuple(sorted([(a, sa), (b, sb)]))


class Link:
    __slots__ = ("a", "ao", "b", "bo", "overlap", "tags")

    def __init__(self, a, ao, b, bo, overlap="0M", tags=()):
        self.a, self.ao, self.b, self.bo, self.overlap = a, ao, b, bo, overlap
        self.tags = list(tags)  # raw strings, ordered

    def sides(self):
        return side_pair(self.a, self.ao, self.b, self.bo)

    def flipped(self):
        """The equivalent declaration from the other end."""
        inv = {"+": "-", "-": "+"}
        return Link(self.b, inv[self.bo], self.a, inv[self.ao], self.overlap, self.tags)

    def key(self):
        return (self.sides(), self.overlap, tuple(self.tags))

    def line(self):
        return "\t".join(["L", self.a, self.ao, self.b, self.bo, self.overlap] + list(self.tags))


class Graph:
    def __init__(self):
        self.segs = {}  # id -> Seg (insertion ordered)
        self.links = []
        self.other = []  # other lines, verbatim

    @classmethod
    def parse(cls, text):
        g = cls()
        for raw in text.split("\n"):
            if raw == "":
                continue
            f = raw.rstrip("\r").split("\t")
            if f[0] == "S":
                g.segs[f[1]] = Seg(f[1], f[2], [split_tag(x) for x in f[3:]])
            elif f[0] == "L":
                g.links.append(Link(f[1], f[2], f[3], f[4], f[5], f[6:]))
            else:
                g.other.append(raw)
        return g

    def add_seg(self, id, seq, tags=()):
        self.segs[id] = Seg(id, seq, tags)
        return self.segs[id]

    def add_link(self, a, ao, b, bo, overlap="0M", tags=()):
        self.links.append(Link(a, ao, b, bo, overlap, tags))

    def text(self, with_seq=True, order=None):
        lines = [s.line(with_seq) for s in self.segs.values()] + [l.line() for l in self.links]
        if order is not None:
            lines = [lines[i] for i in order]
        return "".join(x + "\n" for x in lines)

    def lines(self, with_seq=True):
        return [s.line(with_seq) for s in self.segs.values()] + [l.line() for l in self.links]

    def side_set(self):
        """set of unordered side pairs (links whose endpoints exist)."""
        return {l.sides() for l in self.links if l.a in self.segs and l.b in self.segs}

    def link_multiset(self):
        out = {}
        for l in self.links:
            if l.a in self.segs and l.b in self.segs:
                out[l.key()] = out.get(l.key(), 0) + 1
        return out

    # ------------------------------------------------------------------ walks
    def is_walk(self, steps, sides=None):
        if sides is None:
            sides = self.side_set()
        for o, n in steps:
            if n not in self.segs:
                return False
        for (o1, n1), (o2, n2) in zip(steps, steps[1:]):
            leave = (n1, 1 if o1 == ">" else 0)
            enter = (n2, 0 if o2 == ">" else 1)
            if tuple(sorted([leave, enter])) not in sides:
                return False
        return True

    def spell(self, steps):
        return "".join(self.segs[n].seq if o == ">" else revcomp(self.segs[n].seq) for o, n in steps)

    # ------------------------------------------------------------------ undirected structure
    def adjacency(self, nodes=None):
        if nodes is None:
            nodes = set(self.segs)
        adj = {n: set() for n in nodes}
        for l in self.links:
            if l.a in adj and l.b in adj:
                adj[l.a].add(l.b)
                adj[l.b].add(l.a)
        return adj

    def contigs(self):
        """contig name -> (rank, [segments sorted by SO])"""
        out = {}
        for s in self.segs.values():
            if s.SN is None:
                continue
            out.setdefault(s.SN, [s.SR, []])[1].append(s)
        for v in out.values():
            v[1].sort(key=lambda s: s.SO)
        return {k: (v[0], v[1]) for k, v in out.items()}


def parse_steps(path):
    return [(m[0], m[1:]) for m in re.findall(r"[<>][^<>]+", path)]


def steps_str(steps):
    return "".join(o + n for o, n in steps)


def reverse_steps(steps):
    return [(">" if o == "<" else "<", n) for o, n in reversed(steps)]


# ----------------------------------------------------------------------------------------------
# undirected decomposition oracles (brute force)


def components(adj):
    seen = set()
    out = []
    for n in adj:
        if n in seen:
            continue
        comp = {n}
        todo = [n]
        while todo:
            x = todo.pop()
            for y in adj[x]:
                if y not in comp:
                    comp.add(y)
                    todo.append(y)
        seen |= comp
        out.append(frozenset(comp))
    return out


def connected(adj, nodes):
    nodes = set(nodes)
    if not nodes:
        return True
    start = next(iter(nodes))
    comp = {start}
    todo = [start]
    while todo:
        x = todo.pop()
        for y in adj[x]:
            if y in nodes and y not in comp and y != x:
                comp.add(y)
                todo.append(y)
    return comp == nodes


def articulation_points(adj, comp=None):
    nodes = set(adj) if comp is None else set(comp)
    out = set()
    for v in nodes:
        rest = nodes - {v}
        if len(rest) >= 1 and not connected(adj, rest):
            out.add(v)
    return out


def blocks(adj, comp=None):
    """Biconnected components (vertex sets) of the simple graph underlying adj, by brute force over all
    vertex subsets: a set S is biconnected if it is an edge, or |S| >= 3 and the induced subgraph is
    connected and stays connected after removing any single vertex. Blocks = the maximal such sets."""
    nodes = sorted(adj if comp is None else comp)
    good = []
    for k in range(2, len(nodes) + 1):
        for S in itertools.combinations(nodes, k):
            Ss = set(S)
            if k == 2:
                if S[1] in adj[S[0]]:
                    good.append(frozenset(S))
                continue
            if not connected(adj, Ss):
                continue
            if all(connected(adj, Ss - {w}) for w in S):
                good.append(frozenset(S))
    out = set()
    for S in good:
        if not any(S < T for T in good):
            out.add(S)
    return out


# ----------------------------------------------------------------------------------------------
# GAF records


class Rec:
    __slots__ = ("qname", "qlen", "qs", "qe", "strand", "path", "plen", "ps", "pe", "matches", "block", "mapq", "opt")

    def __init__(self, qname, qlen, qs, qe, strand, path, plen, ps, pe, matches, block, mapq, opt=()):
        self.qname, self.qlen, self.qs, self.qe = qname, int(qlen), int(qs), int(qe)
        self.strand, self.path = strand, path
        self.plen, self.ps, self.pe = int(plen), int(ps), int(pe)
        self.matches, self.block, self.mapq = int(matches), int(block), int(mapq)
        self.opt = list(opt)  # raw optional fields, ordered

    @classmethod
    def parse(cls, line):
        f = line.rstrip("\n").split("\t")
        if len(f) < 12:
            raise ValueError(f"GAF line with {len(f)} columns: {line!r}")
        return cls(*f[:12], opt=f[12:])

    def cols(self):
        return [
            self.qname,
            str(self.qlen),
            str(self.qs),
            str(self.qe),
            self.strand,
            self.path,
            str(self.plen),
            str(self.ps),
            str(self.pe),
            str(self.matches),
            str(self.block),
            str(self.mapq),
        ]

    def line(self):
        return "\t".join(self.cols() + list(self.opt))

    def opt_get(self, tag):
        for o in self.opt:
            if o.startswith(tag + ":"):
                return split_tag(o)[2]
        return None

    def opt_without(self, *tags):
        return [o for o in self.opt if o[:2] not in tags]

    def is_stable(self):
        return ":" in self.path or not (self.path.startswith(">") or self.path.startswith("<"))


def parse_gaf(text):
    return [Rec.parse(l) for l in text.split("\n") if l != ""]


def parse_stable_path(path):
    """-> list of (orient, contig, a, b) or None for a bare contig name."""
    if not (path.startswith(">") or path.startswith("<")):
        return None
    out = []
    for m in re.findall(r"[<>][^<>]+", path):
        o, rest = m[0], m[1:]
        c = rest.rfind(":")
        ctg, iv = rest[:c], rest[c + 1 :]
        a, b = iv.split("-")
        out.append((o, ctg, int(a), int(b)))
    return out


def flip(o):
    return {"+": "-", "-": "+"}[o]


def loci(graph, rec):
    """Read-relative list of (contig, position, orientation) designated by path[start:end] of a record,
    in unstable or stable coordinates."""
    if not rec.is_stable():
        full = []
        for o, n in parse_steps(rec.path):
            s = graph.segs[n]
            rng = range(s.SO, s.SO + s.LN)
            if o == ">":
                full.extend((s.SN, p, "+") for p in rng)
            else:
                full.extend((s.SN, p, "-") for p in reversed(rng))
    else:
        ivs = parse_stable_path(rec.path)
        if ivs is None:
            # bare contig name: coordinates are contig coordinates
            full = None
            sel = [(rec.path, p, "+") for p in range(rec.ps, rec.pe)]
        else:
            full = []
            for o, c, a, b in ivs:
                if o == ">":
                    full.extend((c, p, "+") for p in range(a, b))
                else:
                    full.extend((c, p, "-") for p in reversed(range(a, b)))
    if full is not None:
        if not (0 <= rec.ps <= rec.pe <= len(full)):
            return ("out-of-range", rec.ps, rec.pe, len(full))
        sel = full[rec.ps : rec.pe]
    if rec.strand == "-":
        sel = [(c, p, flip(o)) for c, p, o in reversed(sel)]
    return sel


def path_total_length(graph, rec):
    """What column 7 has to be: total length of the path, or the contig length for a bare rank-0 contig."""
    if not rec.is_stable():
        return sum(graph.segs[n].LN for o, n in parse_steps(rec.path))
    ivs = parse_stable_path(rec.path)
    if ivs is None:
        rank, segs = graph.contigs()[rec.path]
        return sum(s.LN for s in segs)
    return sum(b - a for o, c, a, b in ivs)


def stable_intervals(graph, steps, merge=True):
    """Per-step stable intervals, merged when same contig, same orientation and touching in that orientation."""
    out = []
    for o, n in steps:
        s = graph.segs[n]
        iv = [o, s.SN, s.SO, s.SO + s.LN]
        if merge and out and out[-1][0] == o and out[-1][1] == s.SN:
            if o == ">" and out[-1][3] == iv[2]:
                out[-1][3] = iv[3]
                continue
            if o == "<" and out[-1][2] == iv[3]:
                out[-1][2] = iv[2]
                continue
        out.append(iv)
    return [tuple(x) for x in out]


def to_stable_model(graph, rec, merge=True, collapse=True):
    """The model's stable form of an unstable '+' record (canonical when merge and collapse)."""
    steps = parse_steps(rec.path)
    ivs = stable_intervals(graph, steps, merge)
    ctgs = graph.contigs()
    plen = sum(b - a for o, c, a, b in ivs)
    out = Rec(*rec.cols(), opt=rec.opt)
    if collapse and len(ivs) == 1 and ctgs[ivs[0][1]][0] == 0:
        o, c, a, b = ivs[0]
        out.path = c
        out.plen = sum(s.LN for s in ctgs[c][1])
        if o == ">":
            out.ps = a + rec.ps
            out.pe = a + rec.pe
        else:
            out.strand = "-"
            out.ps = a + (plen - rec.pe)
            out.pe = a + (plen - rec.ps)
            out.opt = [("cg:Z:" + reverse_cigar(x[5:])) if x.startswith("cg:Z:") else x for x in out.opt]
    else:
        out.path = "".join(f"{o}{c}:{a}-{b}" for o, c, a, b in ivs)
        out.plen = plen
    return out


def cigar_runs(cg):
    return re.findall(r"(\d+)([=XIDMNSHP])", cg)


def reverse_cigar(cg):
    return "".join(n + op for n, op in reversed(cigar_runs(cg)))
