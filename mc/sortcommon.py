"""Shared by C08 / C09 / C10: BO/NO-tagged graphs (from the real order_gfa and hand-tagged), the model of sort's
documented key, record alphabets, running sort and reading its outputs."""

import os
import pickle

from mc import framework as fw
from mc import rgfa
from mc import gen


def two_chrom_graph(blocks1=("snp", "link", "insertion"), blocks2=("deletion",), decl="alt"):
    c1 = gen.Chain(list(blocks1), chrom="chr1", id_base=0, hap="hA#1#c", decl=decl, scaffold_len=12)
    c2 = gen.Chain(list(blocks2), chrom="chr2", id_base=40, hap="hB#1#c", decl=decl, so_base=0, id_style="odd")
    return gen.merge_graphs([c1.g, c2.g]), c1, c2


def tag_by_model(g, chains, with_untagged=True, bo_start=0, restart_per_chain=False):
    """hand-tagged copy: BO increasing along each chain (chr1 then chr2), NO by sorted id; optionally an extra node
    carrying BO = NO = -1 (what an untagged node looks like to sort) hanging off the last scaffold of chr1."""
    out = rgfa.Graph()
    bo = bo_start
    tags = {}
    for ch in chains:
        if restart_per_chain:
            bo = bo_start  # chromosomes ordered separately and concatenated: their BO ranges overlap
        for kind, x in ch.order:
            if kind == "s":
                tags[x] = (bo, 0)
            else:
                for i, n in enumerate(sorted(x)):
                    tags[n] = (bo, i + 1)
            bo += 1
    for s in g.segs.values():
        b, n = tags[s.id]
        out.add_seg(s.id, s.seq, [t for t in s.tags if t[0] not in ("BO", "NO")] + [("BO", "i", str(b)), ("NO", "i", str(n))])
    out.links = list(g.links)
    if with_untagged:
        first_chain = [c for c in chains if c.chrom == "chr1"][0] if any(c.chrom == "chr1" for c in chains) else chains[0]
        last_scaffold = [x for k, x in first_chain.order if k == "s"][-1]
        out.add_seg("u1", "ACGTAC", [("LN", "i", "6"), ("SN", "Z", "hU#1#c"), ("SO", "i", "500"), ("SR", "i", "3"), ("BO", "i", "-1"), ("NO", "i", "-1")])
        out.add_link(last_scaffold, "+", "u1", "+", "0M")
        out.add_link("u1", "+", [x for k, x in first_chain.order if k == "s"][0], "+", "0M")  # a walk may also START in the untagged node
        # a reference (rank-0) contig that was left out of the chromosome order: its node is untagged
        out.add_seg("ebv1", "ACGTACGTAC", [("LN", "i", "10"), ("SN", "Z", "007"), ("SO", "i", "0"), ("SR", "i", "0"), ("BO", "i", "-1"), ("NO", "i", "-1")])
        # a node order beyond 16 bits (a bubble with very many alleles), in the first bubble of chr1
        first_bubble = [x for k, x in first_chain.order if k == "b" and len(x) >= 2]
        if first_bubble:
            bo_b = tags[sorted(first_bubble[0])[0]][0]
            out.add_seg("n70k", "ACGT", [("LN", "i", "4"), ("SN", "Z", "hN#1#c"), ("SO", "i", "900"), ("SR", "i", "4"), ("BO", "i", str(bo_b)), ("NO", "i", "70001")])
            out.add_link([x for k, x in first_chain.order if k == "s"][0], "+", "n70k", "+", "0M")
    return out


def tag_by_order_gfa(g, scratch, name="pipe"):
    """the same graph tagged by the real `gaftools order_gfa` (pipeline composition); None if that fails"""
    from gaftools.cli import order_gfa

    inp = os.path.join(scratch, name + ".gfa")
    fw.write_text(inp, g.text())
    outdir = os.path.join(scratch, name + "-out")
    out = fw.guarded(order_gfa.run_order_gfa, gfa_filename=inp, outdir=outdir, by_chrom=False, chromosome_order="chr1,chr2", with_sequence=True)
    comp = os.path.join(outdir, name + "-complete.gfa")
    if out.kind != "ok" or not os.path.exists(comp):
        return None
    t = rgfa.Graph.parse(open(comp).read())
    if any(s.tag("BO") is None or s.tag("NO") is None for s in t.segs.values()) or set(t.segs) != set(g.segs):
        return None
    return t


def sort_key(g, rec):
    """Model of the documented rule (sort.py docstring, guide.rst): anchor = first node of the path, or the last
    node when more scaffold nodes (tagged, NO = 0) are traversed reversed than forward; key = (BO, NO, start on
    the anchor side). Also returns sn and iv."""
    steps = rgfa.parse_steps(rec.path)
    orient = []
    sn = None
    for o, n in steps:
        s = g.segs[n]
        bo, no = int(s.tag("BO")), int(s.tag("NO"))
        if int(s.tag("SR")) == 0 and sn is None:
            sn = s.SN
        if bo == -1 or no == -1:
            continue
        if no != 0:
            continue
        orient.append(o)
    fwd, rev = orient.count(">"), orient.count("<")
    iv = 1 if fwd and rev else 0
    if fwd < rev:
        anchor = g.segs[steps[-1][1]]
        start = rec.plen - rec.pe
    else:
        anchor = g.segs[steps[0][1]]
        start = rec.ps
    return {"BO": int(anchor.tag("BO")), "NO": int(anchor.tag("NO")), "start": start, "sn": sn or "unknown", "iv": iv}


def order_tuple(k):
    return (1 if k["BO"] == -1 else 0, 0 if k["BO"] == -1 else k["BO"], 0 if k["BO"] == -1 else k["NO"], 0 if k["BO"] == -1 else k["start"])


def rec_on(g, qname, path, ps, pe, extra=(), strand="+"):
    steps = rgfa.parse_steps(path)
    total = sum(g.segs[n].LN for o, n in steps)
    n = pe - ps
    return rgfa.Rec(qname, n + 2, 1, 1 + n, strand, path, total, ps, pe, n, n, 60, ["tp:A:P", "NM:i:0", f"cg:Z:{n}="] + list(extra))


def run_sort(scratch, gfa_path, gaf_path, outgaf=None, outind=None, bgzip=False):
    from gaftools.cli import sort

    for p in (outgaf, outind, (outgaf + ".gsi") if outgaf else None):
        if p and os.path.exists(p):
            os.remove(p)
    return fw.guarded(sort.run_sort, gfa=gfa_path, gaf=gaf_path, outgaf=outgaf, outind=outind, bgzip=bgzip, _capture_stdout=outgaf is None)


def read_lines(path, gz=False):
    if gz:
        import gzip

        data = gzip.open(path, "rb").read().decode()
    else:
        data = open(path).read()
    lines = data.split("\n")
    if lines and lines[-1] == "":
        lines = lines[:-1]
    return lines


def load_pickle(path):
    with open(path, "rb") as f:
        return pickle.load(f)


def multi_chrom_graph(nchrom, decl="alt"):
    """1-3 chromosomes, each a bubble chain; chr1 has an inversion block (scaffold traversable in both orientations)"""
    specs = [
        (["snp", "inversion", "insertion"], "chr1", 0, "hA#1#c", 5),
        (["deletion"], "CHM13#0#chr2%2Falt", 40, "hB#1#c", 2),  # a PanSN-style contig name ('#') with a percent sign (URL-encoded names)
        (["triallelic", "link"], "HLA-A*01:01", 70, "hC#1#c", 2),  # a reference contig name with colons (GRCh38 alt contigs)
    ][:nchrom]
    chains = [gen.Chain(b, chrom=c, id_base=i, hap=h, decl=decl, scaffold_len=sl, id_style=("odd" if "chr2" in c else "s")) for b, c, i, h, sl in specs]
    return gen.merge_graphs([c.g for c in chains]), chains


def chain_walk_records(g, chain_graph_ids, maxlen, start_ordinal=0, extra_tags=()):
    """records over every real walk (and hence every reversed walk) of <= maxlen steps inside one component"""
    sides = g.side_set()
    n = start_ordinal
    out = []
    for steps in gen.step_sequences(chain_graph_ids, maxlen):
        if not g.is_walk(steps, sides):
            continue
        total = sum(g.segs[x].LN for o, x in steps)
        s, e = (0, total) if n % 2 == 0 else (min(1, total - 1), total)
        r = rgfa.Rec(f"w{n}", (e - s) + 2, 1, 1 + (e - s), "+", rgfa.steps_str(steps), total, s, e, e - s, e - s, 60,
                     ["tp:A:P", "NM:i:0", f"cg:Z:{e - s}="] + list(extra_tags))
        out.append(r)
        n += 1
    return out


def expected_tags(g, rec):
    k = sort_key(g, rec)
    return {f"bo:i:{k['BO']}", f"sn:Z:{k['sn']}", f"iv:i:{k['iv']}"}


def split_appended(line, nfields=3):
    f = line.split("\t")
    return "\t".join(f[:-nfields]), f[-nfields:]
