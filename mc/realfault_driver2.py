"""Second driver for C13's real-process fault runs: the fault is injected through the aligner, not through the worker's
arguments, so it does not depend on how the implementation hands work to its workers or collects their results.

usage: python -m mc.realfault_driver2 <dir> <cores> <batch> <read index> <kind> <when>
kind: kill | term | exit3 | exc ; when: before (before read j is aligned) | end (0.4 s after the worker that aligned read j has put its
end-of-batch marker on the queue, inside that put call)"""

import os
import sys
import time
import signal

STATE = {}

from mc import framework as fw
from mc import realign_common as rc


def main(argv):
    d, cores, batch, j, kind, when = argv
    cores, batch, j = int(cores), int(batch), int(j)
    fw.bind_repo()
    os.environ["GAFTOOLS_VERIF_BATCH"] = str(batch)
    import gaftools.cli.realign as R

    nrec = 4
    reads = []
    for i in range(nrec):
        seq = rc.PATHSEQ[i : i + 8]
        if i % 2 == 1:
            seq = seq[:3] + ("A" if seq[3] != "A" else "C") + seq[4:]
        reads.append(seq)
    victim = reads[j]
    global STATE
    STATE = {}
    parent = os.getpid()
    Real = R.WavefrontAligner

    def die():
        if kind == "kill":
            os.kill(os.getpid(), signal.SIGKILL)
            time.sleep(30)
        elif kind == "term":
            os.kill(os.getpid(), signal.SIGTERM)
            time.sleep(5)
            os._exit(7)
        elif kind == "exit3":
            os._exit(3)
        raise MemoryError("injected failure of the worker")

    class Aligner:
        def __init__(self, *a, **kw):
            self._real = Real(*a, **kw)

        def __call__(self, query, *a, **kw):
            if os.getpid() != parent and query == victim:
                if when == "before":
                    die()
                out = self._real(query, *a, **kw)
                if when == "end":
                    STATE["victim_worker"] = True  # this process dies when it has said that its batch is finished
                return out
            return self._real(query, *a, **kw)

        def __getattr__(self, name):
            return getattr(self._real, name)

    R.WavefrontAligner = Aligner
    if when == "end":
        # the worker that aligned the victim read dies right after its end-of-batch marker (a None on a multiprocessing
        # queue) has reached the pipe: everything it announced as done must be with the parent by then
        import multiprocessing.queues as mq

        real_put = mq.Queue.put

        def put(self, obj, *a, **kw):
            real_put(self, obj, *a, **kw)
            if obj is None and os.getpid() != parent and STATE.get("victim_worker"):
                time.sleep(0.4)
                if kind == "kill":
                    os.kill(os.getpid(), signal.SIGKILL)
                    time.sleep(30)
                os._exit(3)

        mq.Queue.put = put
    R.run_realign(gaf=os.path.join(d, "a.gaf"), graph=os.path.join(d, "g.gfa"), fasta=os.path.join(d, "r.fa"), output=os.path.join(d, "out.gaf"), cores=cores)
    return 0


if __name__ == "__main__":
    sys.exit(main(sys.argv[1:]))
