"""MANIFEST.setup_cmd: nothing to build (pure Python); verify the environment the checks need."""
import sys
from mc import framework as fw

def main():
    import pysam, pywfa  # noqa
    fw.bind_repo()
    from gaftools.gfa import GFA  # noqa
    print("setup ok: python", sys.version.split()[0], "pysam", pysam.__version__, "repo", fw.REPO)

if __name__ == "__main__":
    main()
