"""Shared by C11 / C13: tiny realign inputs, configurations, schedule selection, real-process conformance."""

import os

from mc import framework as fw

GFA_TEXT = (
    "S\ts1\tACGTACGTAC\tLN:i:10\tSN:Z:chr1\tSO:i:0\tSR:i:0\n"
    "S\ts2\tGGATTCCA\tLN:i:8\tSN:Z:chr1\tSO:i:10\tSR:i:0\n"
    "S\ts3\tTTGACA\tLN:i:6\tSN:Z:chr1\tSO:i:18\tSR:i:0\n"
    "L\ts1\t+\ts2\t+\t0M\n"
    "L\ts2\t+\ts3\t+\t0M\n"
)
PATHSEQ = "ACGTACGTAC" + "GGATTCCA"


def make_long_inputs(d, nrec):
    """the same shape with reads of 30,010 bases (code that treats long alignments specially has something to do)"""
    from mc import gen

    os.makedirs(d, exist_ok=True)
    big = gen._seq(30_100, 11)
    fw.write_text(os.path.join(d, "g.gfa"), f"S\tb1\t{big}\tLN:i:{len(big)}\tSN:Z:chr1\tSO:i:0\tSR:i:0\nS\tb2\tACGT\tLN:i:4\tSN:Z:chr1\tSO:i:{len(big)}\tSR:i:0\nL\tb1\t+\tb2\t+\t0M\n")
    fa, gaf = [], []
    for i in range(nrec):
        seq = big[i : i + 30_010]
        fa.append(f">r{i}\n{seq}\n")
        gaf.append(f"r{i}\t30010\t0\t30010\t+\t>b1>b2\t{len(big) + 4}\t{i}\t{i + 30010}\t30010\t30010\t60\ttp:A:P\tcg:Z:30010=\n")
    fw.write_text(os.path.join(d, "r.fa"), "".join(fa))
    fw.write_text(os.path.join(d, "a.gaf"), "".join(gaf))
    return {"gaf": os.path.join(d, "a.gaf"), "gfa": os.path.join(d, "g.gfa"), "fasta": os.path.join(d, "r.fa")}


def make_passthrough_inputs(d, nrec):
    """every read has more than 60,000 bases: the workers write the records back without aligning"""
    from mc import gen

    os.makedirs(d, exist_ok=True)
    big = gen._seq(60_020, 23)
    fw.write_text(os.path.join(d, "g.gfa"), f"S\tb1\t{big}\tLN:i:{len(big)}\tSN:Z:chr1\tSO:i:0\tSR:i:0\nS\tb2\tACGT\tLN:i:4\tSN:Z:chr1\tSO:i:{len(big)}\tSR:i:0\nL\tb1\t+\tb2\t+\t0M\n")
    fa, gaf = [], []
    for i in range(nrec):
        fa.append(f">r{i}\n{big[i : i + 60_005]}\n")
        gaf.append(f"r{i}\t60005\t0\t60005\t+\t>b1>b2\t{len(big) + 4}\t{i}\t{i + 60005}\t60005\t60005\t60\ttp:A:P\tcg:Z:60005=\n")
    fw.write_text(os.path.join(d, "r.fa"), "".join(fa))
    fw.write_text(os.path.join(d, "a.gaf"), "".join(gaf))
    return {"gaf": os.path.join(d, "a.gaf"), "gfa": os.path.join(d, "g.gfa"), "fasta": os.path.join(d, "r.fa")}


def make_inputs(d, nrec):
    os.makedirs(d, exist_ok=True)
    fw.write_text(os.path.join(d, "g.gfa"), GFA_TEXT)
    fa, gaf = [], []
    for i in range(nrec):
        seq = PATHSEQ[i : i + 8]
        if i % 2 == 1:  # one mismatch in odd reads, so the realigned CIGAR is not trivial
            seq = seq[:3] + ("A" if seq[3] != "A" else "C") + seq[4:]
        fa.append(f">r{i}\n{seq}\n")
        gaf.append(f"r{i}\t8\t0\t8\t+\t>s1>s2\t18\t{i}\t{i + 8}\t8\t8\t60\ttp:A:P\tcg:Z:8=\n")
    fw.write_text(os.path.join(d, "r.fa"), "".join(fa))
    fw.write_text(os.path.join(d, "a.gaf"), "".join(gaf))
    return {"gaf": os.path.join(d, "a.gaf"), "gfa": os.path.join(d, "g.gfa"), "fasta": os.path.join(d, "r.fa")}


def cfg_for(d, c):
    maker = make_passthrough_inputs if c.get("passthrough") else make_long_inputs if c.get("long") else make_inputs
    cfg = maker(os.path.join(d, f"in-{c['nrec']}{'-long' if c.get('long') else ''}{'-pt' if c.get('passthrough') else ''}"), c["nrec"])
    cfg.update(cores=c["cores"], batch=c["batch"], cpu_count=c["cpu_count"], pipe_capacity=c.get("pipe"))
    return cfg


def cfg_key(c):
    return f"cores={c['cores']},batch={c['batch']},records={c['nrec']},cpu_count={c['cpu_count']}" + (f",pipe_capacity={c['pipe']}" if c.get("pipe") else "") + (",reads of 30 kb" if c.get("long") else "") + (",reads of more than 60 kb (pass-through)" if c.get("passthrough") else "")


def configs(tier):
    out = []
    if tier == "quick":
        for cores in (1, 2):
            for batch in (1, 2):
                for nrec in (1, 2, 3, 4):
                    out.append({"cores": cores, "batch": batch, "nrec": nrec, "cpu_count": 16})
        # a pipe that holds one message: a worker cannot finish until the parent reads (join before drain deadlocks)
        for cores, batch, nrec in ((1, 2, 2), (1, 2, 3), (2, 1, 2), (2, 2, 3), (2, 2, 4)):
            out.append({"cores": cores, "batch": batch, "nrec": nrec, "cpu_count": 16, "pipe": 1})
        out.append({"cores": 2, "batch": 1, "nrec": 2, "cpu_count": 16, "long": True})
        out.append({"cores": 2, "batch": 1, "nrec": 2, "cpu_count": 16, "passthrough": True})
    else:
        for cpu in (16, 2, 1):
            for cores in (1, 2, 3):
                if cpu == 16 or cores > cpu:
                    for batch in (1, 2):
                        for nrec in (1, 2, 3, 4, 5, 6):
                            out.append({"cores": cores, "batch": batch, "nrec": nrec, "cpu_count": cpu})
        for cap in (1, 2):
            for cores in (1, 2, 3):
                for batch in (1, 2):
                    for nrec in (2, 4, 6):
                        out.append({"cores": cores, "batch": batch, "nrec": nrec, "cpu_count": 16, "pipe": cap})
        for cores, batch, nrec in ((2, 1, 2), (2, 1, 3), (2, 2, 4), (3, 1, 3)):
            out.append({"cores": cores, "batch": batch, "nrec": nrec, "cpu_count": 16, "long": True})
        for cores, batch, nrec in ((2, 1, 2), (2, 1, 3), (2, 2, 3)):
            out.append({"cores": cores, "batch": batch, "nrec": nrec, "cpu_count": 16, "passthrough": True})
    return out


def n_workers(c):
    return -(-c["nrec"] // c["batch"])


def worker_records(c, w):
    return min(c["batch"], c["nrec"] - w * c["batch"])


def expected_names(nrec):
    return [f"r{i}" for i in range(nrec)]


def out_names(output):
    return [l.split("\t")[0] for l in output.split("\n") if l]


def reference_output(cfg, nrec):
    """Output of the undisturbed single-core run (0 deviations), checked against the independent expectation."""
    from mc import vmp

    c1 = dict(cfg)
    c1["cores"] = 1
    x = vmp.Exec(c1, [], None, want_state=False).run()
    if x.outcome != ("return",) or out_names(x.output) != expected_names(nrec):
        return None, x
    return x.output, x


def virtual_summary(x):
    return {"trace": x.trace, "outcome": x.outcome, "output": x.output, "uses_sync": getattr(x, "uses_sync", False)}


def conform_real(cfg, choices, fault, x):
    from mc import realmp

    return realmp.conform(cfg, choices, fault, virtual_summary(x))


def schedule_sample(x, c, fault=None):
    return {
        "config": cfg_key(c),
        "fault": fault,
        "schedule": x.choices,
        "choice_points": [p[0] for p in x.points],
        "timeouts": x.timeouts,
        "outcome": list(x.outcome),
        "records_out": out_names(x.output),
    }
