#!/venv/bin/python
"""second-wave prompt: like seed_prompt.py, plus the mechanisms already used (from the stored notes), asking for different ones.
usage: tools/seed_prompt2.py <ID> <worktree dir>"""
import sys, os, glob, subprocess, re
pid, wt = sys.argv[1], sys.argv[2]
base = subprocess.check_output([os.path.join(os.path.dirname(__file__), "seed_prompt.py"), pid, wt]).decode()
used = []
for d in sorted(glob.glob(f"/verif/seeded/{pid}-*")):
    n = os.path.join(d, "notes.md")
    if os.path.exists(n):
        txt = re.sub(r"\s+", " ", open(n).read())[:420]
        used.append(f"  - {txt}")
extra = """

IMPORTANT - earlier contributors already delivered the changes summarised below. Do NOT repeat them or close variants of them
(same code site with the same idea). Find DIFFERENT mechanisms: other functions or modules that the property depends on (shared
helpers, parsers, readers/writers, defaults, caches, ordering, numeric/textual boundary cases, compressed input, resource handling,
early exits), or a different kind of trigger (history of calls, size thresholds, unusual-but-valid input shapes, option combinations).
Already used:
""" + "\n".join(used) + "\n\nName your directories seed/d, seed/e, seed/f (instead of a, b, c).\n"
print(base.replace("Deliver up to THREE independent changes", extra + "\nDeliver up to THREE independent changes").replace("seed/a, " + wt + "/seed/b, " + wt + "/seed/c", "seed/d, " + wt + "/seed/e, " + wt + "/seed/f").replace("seed/a/", "seed/d/"))
