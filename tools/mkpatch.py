#!/venv/bin/python
"""usage: mkpatch.py <out.diff> <file-relative-to-repo> <<< python code editing variable s (file content)
Produces a unified diff (a/ b/ prefixes) of /repo's file after exec'ing the edit script from stdin."""
import sys, difflib, os
out, rel = sys.argv[1], sys.argv[2]
src = open(os.path.join("/repo", rel)).read()
ns = {"s": src}
exec(sys.stdin.read(), ns)
new = ns["s"]
assert new != src, "edit changed nothing"
d = difflib.unified_diff(src.splitlines(True), new.splitlines(True), "a/" + rel, "b/" + rel)
open(out, "w").write("".join(d))
print("wrote", out)
