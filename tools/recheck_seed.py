#!/venv/bin/python
"""usage: recheck_seed.py <seeded/NAME> <tier> [<check ID>...]
Re-runs checks against a scratch copy of /repo carrying a stored seeded patch; updates meta.json (ran, detected_by)."""
import sys, os, subprocess, json, shutil, tempfile, re
sd, tier = sys.argv[1].rstrip("/"), sys.argv[2]
meta_p = os.path.join(sd, "meta.json")
meta = json.load(open(meta_p))
checks = sys.argv[3:] or [meta["property"]]
def sh(cmd, cwd=None, timeout=3000):
    p = subprocess.run(cmd, shell=True, cwd=cwd, stdout=subprocess.PIPE, stderr=subprocess.STDOUT, timeout=timeout)
    return p.returncode, p.stdout.decode(errors="replace")
D = tempfile.mkdtemp(prefix="gtseed.", dir="/tmp")
try:
    sh(f"rsync -a --exclude .git --exclude '*.egg-info' --exclude __pycache__ /repo/ {D}/")
    rc, out = sh(f"patch -p1 -s < {os.path.abspath(sd)}/patch.diff", D)
    if rc != 0:
        print("PATCH DOES NOT APPLY to the current tree:", out[-300:]); sys.exit(3)
    rc, out = sh("PYTHONDONTWRITEBYTECODE=1 /venv/bin/python -m pytest -q -p no:cacheprovider 2>&1 | tail -1", D); print("tests:", out.strip())
    ran = []
    for c in checks:
        rc, out = sh(f"VERIF_REPO={D} VERIF_EVIDENCE_DIR={D}/.ev VERIF_REPLAY_DIR={D}/.rp /verif/check {c} {tier}")
        lines = [l.replace(D, "<copy>") for l in out.splitlines() if re.search(r"VIOLATION|KNOWN-FINDING|HARNESS|violations=|^  \[", l)]
        ran.append({"check": f"./check {c} {tier}", "exit": rc, "output": lines[:12]})
        print(c, tier, "exit", rc); [print("   ", l[:260]) for l in lines[:6]]
    meta["ran"] = ran
    meta["detected_by"] = [r["check"] for r in ran if r["exit"] == 1]
    json.dump(meta, open(meta_p, "w"), indent=1)
finally:
    shutil.rmtree(D, ignore_errors=True)
