#!/bin/bash
# usage: tools/try_mutant.sh <patch.diff> <tier> <ID> [<ID>...]
# Applies the patch to a scratch copy of /repo (outside /repo and /verif), runs the repository's test suite
# there, then runs the given checks against the copy (VERIF_REPO) and removes the copy.
set -u
PATCH="$(realpath "$1")"; TIER="$2"; shift 2
D="$(mktemp -d /tmp/gtmut.XXXXXX)"
trap 'rm -rf "$D"' EXIT
rsync -a --exclude .git --exclude '*.egg-info' --exclude __pycache__ /repo/ "$D/"
( cd "$D" && patch -p1 -s < "$PATCH" ) || { echo "PATCH-FAILED"; exit 3; }
( cd "$D" && PYTHONDONTWRITEBYTECODE=1 timeout 900 /venv/bin/python -m pytest -q -p no:cacheprovider -x 2>&1 | tail -2 )
( cd "$D" && /venv/bin/python -c "import gaftools,sys; print('tests imported', gaftools.__file__)" )
rc=0
for id in "$@"; do
  echo "--- $id $TIER against mutant"
  VERIF_REPO="$D" VERIF_EVIDENCE_DIR="$D/.evidence" VERIF_REPLAY_DIR="$D/.replays" /verif/check "$id" "$TIER" | grep -E "VIOLATION|KNOWN|HARNESS|violations=" | sed "s#$D#<copy>#g" | head -12
done
