#!/bin/bash
# usage: tools/run_all.sh <quick|thorough> [IDs...]   - runs the claimed checks one after another, one summary line each
TIER="${1:-quick}"; shift
IDS="$@"
if [ -z "$IDS" ]; then IDS=$(/venv/bin/python -c "import json; print(' '.join(c['property_id'] for c in json.load(open('/verif/MANIFEST.json'))['checks']))"); fi
for id in $IDS; do
  out=$(/verif/check $id $TIER 2>&1); rc=$?
  echo "$id rc=$rc $(echo "$out" | grep -E "^$id $TIER:" | tail -1) $(echo "$out" | grep -c '^VIOLATION') violation-lines $(echo "$out" | grep -c '^KNOWN-FINDING') known $(echo "$out" | grep -c 'HARNESS') harness"
done
