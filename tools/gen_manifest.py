#!/venv/bin/python
"""Regenerates /verif/MANIFEST.json from the check modules present in mc/props."""
import os, sys, json, importlib, subprocess
VERIF = os.path.dirname(os.path.dirname(os.path.abspath(__file__)))
sys.path.insert(0, VERIF)
props = [json.loads(l) for l in open(os.path.join(VERIF, "properties.jsonl"))]
NOT_BUILT = json.load(open(os.path.join(VERIF, "tools", "not_applicable.json"))) if os.path.exists(os.path.join(VERIF, "tools", "not_applicable.json")) else {}
checks, na = [], []
for p in props:
    pid = p["id"]
    path = os.path.join(VERIF, "mc", "props", pid.lower() + ".py")
    if not os.path.exists(path) or pid in NOT_BUILT:
        na.append({"property_id": pid, "reason": NOT_BUILT.get(pid, "check not built yet (planned: see DESIGN.md §4/§7); nothing is claimed for this property")})
        continue
    m = importlib.import_module(f"mc.props.{pid.lower()}")
    checks.append({
        "property_id": pid,
        "quick_cmd": f"./check {pid} quick",
        "thorough_cmd": f"./check {pid} thorough",
        "evidence_file": f"/verif/evidence/{pid}.json",
        "replay_cmd_template": f"./check {pid} quick --replay {{path}}",
        "engine": getattr(m, "ENGINE", "E2-bounded-exhaustive"),
        "level_claimed": {"category": m.LEVEL, "text": m.LEVEL_TEXT, "design_ref": m.DESIGN_REF},
        "level_note": m.LEVEL_NOTE,
        "technique": m.TECHNIQUE,
    })
hooks_commits = []
hc = os.path.join(VERIF, "tools", "hook_commits.txt")
if os.path.exists(hc):
    hooks_commits = [l.strip() for l in open(hc) if l.strip()]
man = {
    "version": 1,
    "setup_cmd": "/venv/bin/python -m mc.setup_check",
    "hooks": {
        "guard": "GAFTOOLS_VERIF",
        "enable": "environment variable GAFTOOLS_VERIF=1 (set by ./check); pure Python, nothing to rebuild: checks import gaftools from /repo's working tree",
        "baseline_off_cmd": "cd /repo && env -u GAFTOOLS_VERIF -u GAFTOOLS_VERIF_BATCH /venv/bin/python -m pytest -ra -q -p no:cacheprovider --timeout=900 --continue-on-collection-errors",
        "source_commits": hooks_commits,
        "add_only": True,
    },
    "engines": [
        {"name": "E1-schedule-fault-explorer", "path": "mc/vmp.py", "serves_properties": ["C11", "C13"],
         "kind_free_text": "stateless DFS over all interleavings of the real realign collection loop with virtual multiprocessing; deviation-bounded and complete on the smallest configurations; schedules replayed on real processes"},
        {"name": "E2-bounded-exhaustive", "path": "mc/runner.py", "serves_properties": [c["property_id"] for c in checks if c["engine"].startswith("E2")],
         "kind_free_text": "bounded-exhaustive small-scope enumeration of inputs / configurations / operation histories run on the real entry points against an independent reference model (mc/rgfa.py)"},
    ],
    "checks": checks,
    "not_applicable": na,
    "notes": "All checks: ./check <ID> <quick|thorough> [--replay FILE]; exit 0 held / 1 VIOLATION / 2 harness error. Known findings: /verif/known_findings.json.",
}
json.dump(man, open(os.path.join(VERIF, "MANIFEST.json"), "w"), indent=1)
print("claimed:", [c["property_id"] for c in checks]); print("not_applicable:", [x["property_id"] for x in na])
