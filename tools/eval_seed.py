#!/venv/bin/python
"""usage: eval_seed.py <worktree> <letter> <ID> <tier> [<check ID>...]
Confirms a sub-agent's seeded change (tests pass with it, demo fails with it and passes without), runs the given
checks against a scratch copy of /repo carrying the patch, and stores it under /verif/seeded/<ID>-<letter>/."""
import sys, os, subprocess, json, shutil, tempfile, re
wt, letter, pid, tier = sys.argv[1:5]
checks = sys.argv[5:] or [pid]
sd = os.path.join(wt, "seed", letter)
patch = os.path.join(sd, "patch.diff")
def sh(cmd, cwd=None, timeout=1800):
    p = subprocess.run(cmd, shell=True, cwd=cwd, stdout=subprocess.PIPE, stderr=subprocess.STDOUT, timeout=timeout)
    return p.returncode, p.stdout.decode(errors="replace")
meta = {"property": pid, "seed": letter, "ran": []}
sh("git checkout -- . && git clean -fdq -e seed", wt)
rc, out = sh(f"/venv/bin/python seed/{letter}/demo.py", wt); meta["demo_without_patch_exit"] = rc
rc, out = sh(f"git apply seed/{letter}/patch.diff", wt); assert rc == 0, out
rc, out = sh("PYTHONDONTWRITEBYTECODE=1 /venv/bin/python -m pytest -q -p no:cacheprovider 2>&1 | tail -1", wt); meta["tests_with_patch"] = out.strip()
rc, out = sh(f"/venv/bin/python seed/{letter}/demo.py", wt); meta["demo_with_patch_exit"] = rc; meta["demo_with_patch_output"] = out[-600:]
sh("git checkout -- . && git clean -fdq -e seed", wt)
ok = meta["demo_without_patch_exit"] == 0 and meta["demo_with_patch_exit"] == 1 and "54 passed" in meta["tests_with_patch"]
meta["confirmed"] = ok
print("confirmed" if ok else "NOT CONFIRMED", json.dumps({k: meta[k] for k in ("demo_without_patch_exit", "demo_with_patch_exit", "tests_with_patch")}))
# run checks against a scratch copy of /repo with the patch
D = tempfile.mkdtemp(prefix="gtseed.", dir="/tmp")
try:
    sh(f"rsync -a --exclude .git --exclude '*.egg-info' --exclude __pycache__ /repo/ {D}/")
    rc, out = sh(f"patch -p1 -s < {patch}", D); assert rc == 0, out
    for c in checks:
        rc, out = sh(f"VERIF_REPO={D} VERIF_EVIDENCE_DIR={D}/.ev VERIF_REPLAY_DIR={D}/.rp /verif/check {c} {tier}")
        lines = [l.replace(D, "<copy>") for l in out.splitlines() if re.search(r"VIOLATION|KNOWN-FINDING|HARNESS|violations=|^  \[", l)]
        meta["ran"].append({"check": f"./check {c} {tier}", "exit": rc, "output": lines[:12]})
        print(c, tier, "exit", rc); [print("   ", l[:300]) for l in lines[:8]]
finally:
    shutil.rmtree(D, ignore_errors=True)
meta["detected_by"] = [r["check"] for r in meta["ran"] if r["exit"] == 1]
if ok:
    dst = os.path.join("/verif/seeded", f"{pid}-{letter}")
    os.makedirs(dst, exist_ok=True)
    for f in ("patch.diff", "demo.py", "notes.md"):
        if os.path.exists(os.path.join(sd, f)): shutil.copy(os.path.join(sd, f), dst)
    notes = open(os.path.join(sd, "notes.md")).read() if os.path.exists(os.path.join(sd, "notes.md")) else ""
    meta["needs_to_manifest"] = notes[:1500]
    json.dump(meta, open(os.path.join(dst, "meta.json"), "w"), indent=1)
    print("stored", dst)
