#!/venv/bin/python
"""prints the prompt for a seeding sub-agent: tools/seed_prompt.py <ID> <worktree dir>"""
import sys, json
pid, wt = sys.argv[1], sys.argv[2]
prop = [json.loads(l) for l in open("/verif/properties.jsonl") if json.loads(l)["id"] == pid][0]
print(f"""You are working in a scratch git worktree of the open-source Python project gaftools (a CLI toolkit for pangenome alignments: rGFA graphs, GAF alignment files) at {wt}. Work ONLY inside {wt}; never read or modify /repo or /verif. Run Python with /venv/bin/python (it has pysam, pywfa, pytest). The test suite is run with: cd {wt} && /venv/bin/python -m pytest -q -p no:cacheprovider   (54 tests, all pass now; run from that directory so that the worktree's own gaftools package is imported).

Below is a semantic property that the code in this worktree currently satisfies (JSON record: statement, quantifier, and anchors into the code):

{json.dumps(prop, indent=1)}

YOUR TASK: produce realistic source changes (bugs a developer could plausibly introduce during a refactor or 'optimisation') under {wt}/gaftools/ that BREAK this property while the package still imports and the complete existing test suite still passes. Prefer changes that need something specific to manifest - a particular interleaving or timing, a fault at a particular point, a multi-step sequence of operations, an unusual but valid input, or two cooperating sites that each look fine alone - NOT changes that ordinary use or the simplest input would expose at once.

Deliver up to THREE independent changes (different mechanisms / code sites), each in its own directory {wt}/seed/a, {wt}/seed/b, {wt}/seed/c containing:
  1. patch.diff - the change as `git diff` output relative to the worktree root (apply with `git apply seed/a/patch.diff` from {wt}); it must touch only files under gaftools/.
  2. demo.py - a standalone demonstration run as `cd {wt} && /venv/bin/python seed/a/demo.py`. It must begin by putting the worktree root first on sys.path (sys.path.insert(0, <two directories above the script's directory>)) and assert that gaftools.__file__ lies inside the worktree, so that it exercises the worktree's code. It builds whatever small input files it needs itself (in a temp dir), drives the real gaftools code, and exits 0 when the property holds and exits 1 (printing what went wrong) when the property is violated. It must FAIL (exit 1) with the patch applied and PASS (exit 0) without it. It must be deterministic.
  3. notes.md - which part of the property it breaks, and exactly what is needed for the breakage to manifest (input shape, schedule, fault point, sequence).
For each change, verify yourself: (i) with the patch applied the full test suite passes, (ii) with the patch applied demo.py exits 1, (iii) without the patch demo.py exits 0. When finished leave the worktree's tracked files unmodified (git checkout -- . ), with only the untracked seed/ directory added. In your final answer list, per change, one line saying what it does and what it needs to manifest.""")
