"""Plain unit tests that replay, without any of the exploration machinery, the failing inputs / schedules the
checks found on the original tree (DESIGN.md section 9). Each test fails on the commit before its `fix:` commit
and passes after it.   Run:  cd /verif && /venv/bin/python -m pytest -q unit
"""

import os
import sys
import pickle
import multiprocessing as mp

import pytest

sys.path.insert(0, os.environ.get("VERIF_REPO", "/repo"))

from gaftools.gfa import GFA  # noqa: E402

GFA3 = (
    "S\ts1\tACGTACGTAC\tLN:i:10\tSN:Z:chr1\tSO:i:0\tSR:i:0\n"
    "S\ts2\tGGATTCCA\tLN:i:8\tSN:Z:chr1\tSO:i:10\tSR:i:0\n"
    "S\ts3\tTTGACA\tLN:i:6\tSN:Z:chr1\tSO:i:18\tSR:i:0\n"
    "L\ts1\t+\ts2\t+\t0M\nL\ts2\t+\ts3\t+\t0M\n"
)


def w(path, text):
    with open(path, "w") as f:
        f.write(text)
    return str(path)


# --------------------------------------------------------------------------------------------- C11 (fix 3f03ca3)
def test_c11_timeout_while_workers_finish_real_processes(tmp_path, monkeypatch):
    """Schedule: the parent's queue read times out, then the worker delivers its sentinel and exits before the
    liveness / exit-code reads. Real processes, real mp.Queue; the schedule is forced with one semaphore."""
    import gaftools.cli.realign as R

    gfa = w(tmp_path / "g.gfa", GFA3)
    fa = w(tmp_path / "r.fa", ">r0\nACGTACGT\n")
    gaf = w(tmp_path / "a.gaf", "r0\t8\t0\t8\t+\t>s1>s2\t18\t0\t8\t8\t8\t60\tcg:Z:8=\n")
    out = str(tmp_path / "o.gaf")
    gate = mp.Semaphore(0)
    real_worker, real_alive = R.wfa_alignment, R.one_is_alive

    def gated_worker(batch, qu):
        class Q:
            def put(self, item):
                if item is None:
                    gate.acquire()  # the sentinel waits until the parent has seen a timeout
                qu.put(item)

        real_worker(batch, Q())

    def alive_after_release(procs):
        gate.release()
        for p in procs:
            p.join()
        return real_alive(procs)

    monkeypatch.setattr(R, "wfa_alignment", gated_worker)
    monkeypatch.setattr(R, "one_is_alive", alive_after_release)
    R.run_realign(gaf=gaf, graph=gfa, fasta=fa, output=out, cores=1)
    import gc

    gc.collect()
    names = [l.split("\t")[0] for l in open(out) if l.strip()]
    assert names == ["r0"], names


# --------------------------------------------------------------------------------------------- C03 (fix 1007c53)
LAYOUT_SEP = (
    "S\ts1\tAC\tLN:i:2\tSN:Z:chr1\tSO:i:0\tSR:i:0\n"
    "S\ts2\tGT\tLN:i:2\tSN:Z:hA\tSO:i:3\tSR:i:1\n"
    "S\ts3\tC\tLN:i:1\tSN:Z:hA\tSO:i:7\tSR:i:1\n"
    "L\ts1\t+\ts2\t+\t0M\nL\ts2\t+\ts1\t+\t0M\nL\ts1\t+\ts3\t+\t0M\nL\ts3\t+\ts1\t+\t0M\n"
)


def test_c03_index_stable_gaf_with_separated_haplotype_segments(tmp_path):
    from gaftools.cli import index

    gfa = w(tmp_path / "g.gfa", LAYOUT_SEP)
    gaf = w(tmp_path / "a.gaf", "r0\t4\t1\t3\t+\t>hA:3-5\t2\t0\t2\t1\t2\t60\tcg:Z:1X1=\n")
    index.run(gaf_path=gaf, gfa_path=gfa, output=str(tmp_path / "a.gvi"))
    ind = pickle.load(open(tmp_path / "a.gvi", "rb"))
    assert ind[("s2", "hA", 3, 5)] == [0]


# --------------------------------------------------------------------------------------------- C04 / C05
def _indexed(tmp_path, lines):
    from gaftools.cli import index

    gfa = w(tmp_path / "g.gfa", GFA3)
    gaf = w(tmp_path / "a.gaf", "".join(l + "\n" for l in lines))
    index.run(gaf_path=gaf, gfa_path=gfa, output=gaf + ".gvi")
    return gaf


def _view(tmp_path, gaf, **kw):
    from gaftools.cli import view

    out = str(tmp_path / "v.out")
    view.run(gaf_path=gaf, output=out, **kw)
    return [l.split("\t")[0] for l in open(out) if l.strip()]


REC = "{q}\t8\t0\t8\t+\t{p}\t{n}\t0\t8\t8\t8\t60\tcg:Z:8="


def test_c04_record_revisiting_the_queried_node_is_printed_once(tmp_path):
    gaf = _indexed(tmp_path, [REC.format(q="r0", p=">s1>s2<s2", n=26)])
    assert _view(tmp_path, gaf, nodes=["s2"]) == ["r0"]  # fix 550297b


def test_c04_unaligned_node_contributes_nothing(tmp_path):
    gaf = _indexed(tmp_path, [REC.format(q="r0", p=">s1", n=10)])
    assert _view(tmp_path, gaf, nodes=["s3", "s1"]) == ["r0"]  # fix 4fc6e25 (was KeyError)


def test_c05_regions_spanning_unaligned_or_outside(tmp_path):
    from gaftools.cli import CommandLineError

    gaf = _indexed(tmp_path, [REC.format(q="r1", p=">s1", n=10), REC.format(q="r3", p=">s3", n=6)])
    assert _view(tmp_path, gaf, regions=["chr1:5-20"]) == ["r1", "r3"]  # spans s1, s2 (unaligned), s3
    with pytest.raises(CommandLineError):
        _view(tmp_path, gaf, regions=["chr1:12-15"])  # inside the unaligned s2: used to return r3
    gaf2 = _indexed(tmp_path, [REC.format(q="r2", p=">s2", n=8), REC.format(q="r3", p=">s3", n=6)])
    with pytest.raises(CommandLineError):
        _view(tmp_path, gaf2, regions=["chr1:0-3"])  # before the first aligned node: used to loop forever (fix 87dfb2b)


# --------------------------------------------------------------------------------------------- C08 / C10
TAGGED = (
    "S\ta\tAC\tLN:i:2\tSN:Z:chr1\tSO:i:0\tSR:i:0\tBO:i:0\tNO:i:0\n"
    "S\tb\tGT\tLN:i:2\tSN:Z:chr1\tSO:i:2\tSR:i:0\tBO:i:1\tNO:i:1\n"
    "S\tc\tGA\tLN:i:2\tSN:Z:hA\tSO:i:9\tSR:i:1\tBO:i:1\tNO:i:2\n"
    "S\tu\tTT\tLN:i:2\tSN:Z:hU\tSO:i:0\tSR:i:2\tBO:i:-1\tNO:i:-1\n"
    "L\ta\t+\tb\t+\t0M\nL\ta\t+\tc\t+\t0M\nL\tb\t+\tu\t+\t0M\n"
)
SREC = "{q}\t2\t0\t2\t+\t>{n}\t2\t0\t2\t2\t2\t60\tcg:Z:2="


def _sort(tmp_path, names, **kw):
    from gaftools.cli.sort import run_sort

    gfa = w(tmp_path / "t.gfa", TAGGED)
    gaf = w(tmp_path / "s.gaf", "".join(SREC.format(q=f"{n}{i}", n=n) + "\n" for i, n in enumerate(names)))
    out = str(tmp_path / "sorted.gaf")
    run_sort(gfa=gfa, gaf=gaf, outgaf=out, **kw)
    return [l.split("\t")[0] for l in open(out) if l.strip()], out


def test_c08_untagged_record_sorts_last_and_no_is_compared(tmp_path):
    assert _sort(tmp_path, ["u", "a"])[0] == ["a1", "u0"]  # BO=-1 after tagged ones whatever the input order
    assert _sort(tmp_path, ["c", "b"])[0] == ["b1", "c0"]  # equal BO, NO decides (fix 6a350ac)


def test_c10_index_written_when_every_alignment_touches_the_reference(tmp_path):
    names, out = _sort(tmp_path, ["b", "a"])  # used to raise KeyError('unknown') (fix bde8e05)
    idx = pickle.load(open(out + ".gsi", "rb"))
    assert idx["chr1"][0] == 0 and names == ["a1", "b0"]


# --------------------------------------------------------------------------------------------- C06 / C18
CHAIN1 = (
    "S\ts8\tAT\tLN:i:2\tSN:Z:chr1\tSO:i:0\tSR:i:0\nS\ts9\tCG\tLN:i:2\tSN:Z:chr1\tSO:i:2\tSR:i:0\n"
    "S\ts10\tCC\tLN:i:2\tSN:Z:chr1\tSO:i:4\tSR:i:0\nL\ts8\t+\ts9\t+\t0M\nL\ts9\t+\ts10\t+\t0M\n"
)


def _bo(path):
    return {l.split("\t")[1]: int([t for t in l.split("\t") if t.startswith("BO:i:")][0][5:]) for l in open(path) if l.startswith("S")}


def test_c06_single_scaffold_chain_is_numbered_in_reference_direction(tmp_path, monkeypatch):
    from gaftools.cli.order_gfa import run_order_gfa

    orig = GFA.biccs

    def far_end_first(self, set_of_nodes=None):
        # which end block is reported first used to decide the direction (set iteration order); force the far end
        # a DFS from s8 completes the far block {s9, s10} first, so it becomes bubble 0 and the traversal start
        return orig(self, ["s8", "s9", "s10"] if set_of_nodes is None else set_of_nodes)

    monkeypatch.setattr(GFA, "biccs", far_end_first)  # fix a2d5077
    gfa = w(tmp_path / "g.gfa", CHAIN1)
    run_order_gfa(gfa_filename=gfa, outdir=str(tmp_path / "o"), by_chrom=True, chromosome_order="chr1")
    bo = _bo(tmp_path / "o" / "g-chr1.gfa")
    assert bo["s8"] < bo["s9"] < bo["s10"], bo


def test_c18_non_chain_component_is_skipped_and_the_next_one_ordered(tmp_path):
    from gaftools.cli.order_gfa import run_order_gfa

    bad = CHAIN1 + "S\tx1\tAA\tLN:i:2\tSN:Z:hX\tSO:i:0\tSR:i:3\nS\tx2\tAA\tLN:i:2\tSN:Z:hX\tSO:i:5\tSR:i:3\nL\ts9\t+\tx1\t+\t0M\nL\ts9\t-\tx2\t+\t0M\n"
    good = CHAIN1.replace("chr1", "chr2").replace("s8", "t8").replace("s9", "t9").replace("s10", "t10")
    gfa = w(tmp_path / "g.gfa", bad + good)
    run_order_gfa(gfa_filename=gfa, outdir=str(tmp_path / "o"), by_chrom=True, chromosome_order="chr1,chr2")  # TypeError before d60f65b
    assert not os.path.exists(tmp_path / "o" / "g-chr1.gfa")
    assert sorted(_bo(tmp_path / "o" / "g-chr2.gfa").values()) == [0, 1, 2]  # the skip consumed no BO numbers


# --------------------------------------------------------------------------------------------- C07
def test_c07_tag_value_with_colon_and_parallel_links(tmp_path):
    text = "S\ts1\tAC\tzs:Z:a:b#c\nS\ts2\tGT\nL\ts1\t+\ts2\t+\t0M\tx1:i:1\nL\ts1\t+\ts2\t+\t5M\tx2:i:2\n"
    g = GFA(w(tmp_path / "g.gfa", text))  # ValueError before 3dca877
    out = str(tmp_path / "o.gfa")
    g.write_gfa(output_file=out)
    lines = sorted(l.rstrip("\n") for l in open(out))
    assert "S\ts1\tAC\tzs:Z:a:b#c" in lines
    assert "L\ts1\t+\ts2\t+\t0M\tx1:i:1" in lines and "L\ts1\t+\ts2\t+\t5M\tx2:i:2" in lines  # fix 54efae3


# --------------------------------------------------------------------------------------------- C16 / C19 / C20
def test_c16_optional_fields_survive_view(tmp_path):
    fields = "xb:i:-5\tfd:f:1e-05\tzb:Z:a_b\tba:B:i,1,-2\tzj:Z:"
    gaf = _indexed(tmp_path, ["r0\t8\t0\t8\t+\t>s1\t10\t0\t8\t8\t8\t60\t" + fields])
    from gaftools.cli import view

    out = str(tmp_path / "v.out")
    view.run(gaf_path=gaf, output=out, nodes=["s1"])
    assert open(out).read().rstrip("\n").split("\t")[12:] == fields.split("\t")  # no truncation, no invented cg:Z:


def test_c19_primary_secondary_split_and_all_secondary_file(tmp_path):
    from gaftools.cli.stat import run_stat

    base = "{q}\t16\t0\t8\t+\t>s1\t10\t0\t8\t8\t8\t{mq}\t{tp}cg:Z:8="
    gaf = w(tmp_path / "a.gaf", base.format(q="r1", mq=60, tp="tp:A:P\t") + "\n" + base.format(q="r2", mq=60, tp="tp:A:S\t") + "\n")
    rep = str(tmp_path / "rep.txt")
    run_stat(gaf_path=gaf, output=rep)
    text = open(rep).read()
    assert "Primary: 1" in text and "Secondary: 1" in text  # fix ce5d6fa
    gaf2 = w(tmp_path / "b.gaf", base.format(q="r1", mq=0, tp="") + "\n")
    run_stat(gaf_path=gaf2, output=rep)  # ZeroDivisionError before 0a9abf7
    assert "Secondary: 1" in open(rep).read()


def test_c20_phase_keeps_the_record_well_formed(tmp_path):
    from gaftools.cli import phase

    rec = "r1\t20\t3\t13\t-\t>s1>s2\t18\t2\t12\t9\t10\t60\ttp:A:P\tcg:Z:10="
    gaf = w(tmp_path / "a.gaf", rec + "\n")
    tsv = w(tmp_path / "h.tsv", "r1\tH1\t1205\tchr1\n")
    out = str(tmp_path / "o.gaf")
    phase.run(gaf_file=gaf, tsv_file=tsv, output=out)
    assert open(out).read() == "r1\t20\t3\t13\t-\t>s1>s2\t18\t2\t12\t9\t10\t60\tps:Z:chr1-1205\tht:Z:H1\ttp:A:P\tcg:Z:10=\n"


def test_c06_numeric_segment_names_do_not_collide_with_bubble_names(tmp_path):
    from gaftools.cli.order_gfa import run_order_gfa

    text = CHAIN1.replace("s10", "2").replace("s9", "1").replace("s8", "0")  # vg-style ids (fix for the bubble-name collision)
    gfa = w(tmp_path / "g.gfa", text)
    run_order_gfa(gfa_filename=gfa, outdir=str(tmp_path / "o"), by_chrom=True, chromosome_order="chr1")
    bo = _bo(tmp_path / "o" / "g-chr1.gfa")
    assert bo["0"] < bo["1"] < bo["2"], bo


def test_c14_soft_masked_sequence_is_reverse_complemented(tmp_path):
    g = GFA(w(tmp_path / "g.gfa", "S\ts1\tAac\nS\ts2\tGAT\nL\ts1\t+\ts2\t+\t0M\n"))
    assert g.extract_path("<s2<s1") == "ATCgtT"  # lower-case bases used to be reversed only


def test_c11_cores_clamp_never_reaches_zero(tmp_path, monkeypatch):
    import multiprocessing as mp
    import gaftools.cli.realign as R

    seen = {}
    monkeypatch.setattr(mp, "cpu_count", lambda: 1)
    monkeypatch.setattr(R, "realign_gaf", lambda gaf, graph, fasta, output, cores: seen.setdefault("cores", cores))
    R.run_realign(gaf="a", graph="g", fasta="f", output=str(tmp_path / "o.gaf"), cores=2)
    assert seen["cores"] == 1  # was 0 before 2701101: every batch of the file started at once at the end


def test_c13_worker_dying_with_the_queue_lock_held_does_not_hang(tmp_path):
    # the real command in a subprocess: worker 0 takes the result queue's write lock (as its feeder thread does while it
    # writes a message) and dies; before 3a2e248 the second worker blocked for ever and the command never returned
    import subprocess, sys, textwrap

    (tmp_path / "g.gfa").write_text("S\ts1\tACGTACGTAC\tLN:i:10\tSN:Z:chr1\tSO:i:0\tSR:i:0\nS\ts2\tGGATTCCA\tLN:i:8\tSN:Z:chr1\tSO:i:10\tSR:i:0\nL\ts1\t+\ts2\t+\t0M\n")
    (tmp_path / "r.fa").write_text(">r0\nACGTACGT\n>r1\nCGTACGTA\n")
    (tmp_path / "a.gaf").write_text("".join(f"r{i}\t8\t0\t8\t+\t>s1>s2\t18\t{i}\t{i + 8}\t8\t8\t60\tcg:Z:8=\n" for i in range(2)))
    code = textwrap.dedent(f"""
        import os, sys, time
        sys.path.insert(0, {os.environ.get('VERIF_REPO', '/repo')!r})
        os.environ["GAFTOOLS_VERIF"] = "1"; os.environ["GAFTOOLS_VERIF_BATCH"] = "1"
        import gaftools.cli.realign as R
        real = R.wfa_alignment
        def faulty(batch, qu):
            if batch[0][3] == 0:
                qu._wlock.acquire(); os._exit(3)
            time.sleep(0.3); real(batch, qu)
        R.wfa_alignment = faulty
        R.run_realign(gaf={str(tmp_path / 'a.gaf')!r}, graph={str(tmp_path / 'g.gfa')!r}, fasta={str(tmp_path / 'r.fa')!r}, output={str(tmp_path / 'o.gaf')!r}, cores=2)
    """)
    p = subprocess.Popen([sys.executable, "-c", code], stdout=subprocess.DEVNULL, stderr=subprocess.DEVNULL, start_new_session=True)
    try:
        rc = p.wait(timeout=30)
    except subprocess.TimeoutExpired:
        rc = "hang"
    finally:
        try:
            os.killpg(p.pid, 9)
        except ProcessLookupError:
            pass
    assert rc not in (0, "hang"), rc


def test_c19_only_a_run_of_matches_is_a_perfect_alignment(tmp_path):
    from gaftools.cli.stat import run_stat

    base = "r{n}\t16\t0\t8\t+\t>s1\t20\t0\t8\t{m}\t8\t60\ttp:A:P\tcg:Z:{cg}\n"
    gaf = w(tmp_path / "a.gaf", base.format(n=1, m=0, cg="8X") + base.format(n=2, m=8, cg="8=") + base.format(n=3, m=0, cg="8I"))
    rep = str(tmp_path / "rep.txt")
    run_stat(gaf_path=gaf, cigar_stat=True, output=rep)
    assert "Total perfect alignments (exact match): 1" in open(rep).read()  # 3 before the fix
